"""C27 -- user errors surface as ProbLogError, never as crashes (structural clauses E1..E7)."""
import ast
import os

from ..index import AnalysisError, ClassInfo, STDLIB, norm, walk_no_nested
from ..astutil import dotted, handler_class_exprs
from ..callgraph import CallGraph
from ..excflow import ExcFlow, chain_text
from .. import builtins as bi

EXPLANATION = (
    "Decides, along the paths a program text can drive: E1 every import statement of the 58 analysed units resolves (relative imports to an "
    "existing module and an existing top-level name; an absolute import naming a sibling module of the package that is not an installed "
    "top-level module can only raise ModuleNotFoundError); E2 the internal control exceptions UnifyError and UnknownClauseInternal (package "
    "classes outside the ProbLogError hierarchy) cannot escape a registered builtin implementation unless one of the wrappers on the way to "
    "the engine main loop catches them (exception flow over the resolved call graph, reporting the chain raise site -> builtin -> wrapper -> "
    "EvalBuiltIn.__call__ -> eval_default); E3 no explicit raise of a non-ProbLog exception class in user-facing functions (registered "
    "builtins, tokenizer/parser, PrologFactory, ClauseDB compile/add) outside a reasoned table; E4 compute_function's handlers cover the "
    "exception classes of the arithmetic implementations it dispatches to and EvalBuiltIn.__call__ catches the class it converts to. "
    "E5 every builtin argument is type-checked before an attribute of it is read; E6 registry look-ups by a user-supplied name are guarded; E7 every "
    "constant x.args[k] in ClauseDB / ClauseDBEngine has the arity of x established on all paths; E8 LogicProgram.lineno, which formats the location of "
    "every error message, uses the character offset only where `offset is None` is excluded for its current binding (locations (file, None) yield None). "
    "E9 contradictory key beliefs: a local dictionary that is read with .get(k) somewhere in a function (a missing key is expected) is not read with [k] elsewhere "
    "in that function unless a membership test, a comprehension guard or a reasoned table row covers the access. "
    "Implicit exceptions in general (None dereference elsewhere, other KeyErrors, recursion limits) are not decided."
    " Added after seed round 7: E10 add_statement refuses statements and heads that are a Var, Constant, And or Not with a GroundingError (class tests evaluated on the Term hierarchy)."
    " Added after seed round 8: E11 consult registers the line table of a file before it loads the file."
    " Added after seed round 9: E12 in the problog_export family no constructor value is derived from an argument list that a subclass constructor replaces afterwards (positive example matched on every run)."
    " Added from a seeding agent's remarks about the clean tree (both fired there and are repaired): E13 an entry point that resolves a goal with get_builtin and evaluates it with self.execute supplies a call_origin, because builtins subscript kwdargs['call_origin'] without a test; E14 order comparisons of compute_value results are attempted under a TypeError handler."
    " Added after seed round 11: E15 round()/int() of a local produced by float(<text>) sits behind math.isfinite() or handlers for OverflowError and ValueError (fired on the pinned tree: atom_number(inf, X); repaired); E16 a constant index into a local result list is covered by the function's own length tests, folded for the lengths 0..k."
)
TECHNIQUE = "static analysis: import resolution, exception-flow over resolved call graph, handler-coverage tables"

# optional third-party modules (import guarded or back-end optional): one reason each
OPTIONAL_THIRD_PARTY = {
    "pyeda": "BDD back-end, optional",
    "dd": "alternative BDD back-end, optional",
    "IPython": "notebook magic, only loaded inside IPython",
    "pysdd": "SDD back-end, optional (guarded by try/except in sdd_formula*)",
    "java": "Jython detection in setup.py inside try/except",
    "pyparsing": "vendored/optional parser probe in setup.py",
    "psutil": "optional process-tree kill helper, guarded by try/except ImportError",
    "tqdm": "optional progress bar, guarded",
    "numpy": "optional sampler, guarded",
}


def _toplevel_names(module):
    names = set(module.functions) | set(module.classes) | set(module.imports)
    star = False
    for st in ast.walk(module.tree):
        pass
    def collect(stmts):
        nonlocal star
        for st in stmts:
            if isinstance(st, (ast.FunctionDef, ast.AsyncFunctionDef, ast.ClassDef)):
                names.add(st.name)
                continue
            if isinstance(st, ast.ImportFrom) and any(a.name == "*" for a in st.names):
                star = True
            if isinstance(st, (ast.Import, ast.ImportFrom)):
                for a in st.names:
                    names.add((a.asname or a.name).split(".")[0])
                continue
            for sub in ast.walk(st):
                if isinstance(sub, (ast.FunctionDef, ast.AsyncFunctionDef, ast.ClassDef, ast.Lambda)):
                    continue
                if isinstance(sub, ast.Name) and isinstance(sub.ctx, ast.Store):
                    names.add(sub.id)
            for attr in ("body", "orelse", "finalbody"):
                if hasattr(st, attr) and not isinstance(st, (ast.FunctionDef, ast.ClassDef)):
                    collect(getattr(st, attr))
            if isinstance(st, ast.Try):
                for h in st.handlers:
                    collect(h.body)
    collect(module.tree.body)
    return names, star


def rule_e1(repo, col):
    pkgroot = repo.root
    n = 0
    for m in sorted(repo.modules.values(), key=lambda x: x.name):
        pkgdir = os.path.dirname(m.path)
        seen_nodes = set()
        for node, absmod, level, name in m.import_nodes:
            n += 1
            top = (absmod or "").split(".")[0]
            if level > 0 or top == "problog":
                # must resolve inside the package (on disk: excluded dirs are not in repo.modules)
                rel = (absmod or "").split(".")
                base = os.path.join(pkgroot, *rel)
                exists = os.path.isfile(base + ".py") or os.path.isdir(base)
                if not exists:
                    col.fail("E1", m, node, "relative import of %s does not resolve to a module of the package" % absmod)
                    continue
                if name is not None and name != "*" and absmod in repo.modules and not os.path.isdir(base) or (
                    name is not None and name != "*" and absmod in repo.modules and repo.modules[absmod].is_pkg
                ):
                    tm = repo.modules[absmod]
                    names, star = _toplevel_names(tm)
                    sub = os.path.join(base, name) if tm.is_pkg else None
                    is_sub = sub is not None and (os.path.isfile(sub + ".py") or os.path.isdir(sub))
                    if name not in names and not star and not is_sub:
                        col.fail("E1", m, node, "module %s defines no top-level name %r (ImportError at run time)" % (absmod, name),
                                 construct="from %s import %s" % (absmod, name))
                        continue
                col.ok("E1", m, node, "resolves inside the package", construct="%s | %s" % (norm(node), name))
                continue
            if top in STDLIB:
                col.ok("E1", m, node, "standard library", construct="%s | %s" % (norm(node), name))
                continue
            # absolute, non-stdlib: a sibling module of the importing package?
            sib = os.path.join(pkgdir, top)
            if os.path.isfile(sib + ".py") or os.path.isdir(sib):
                col.fail(
                    "E1",
                    m,
                    node,
                    "absolute import of %r, which is a sibling module of this package and not an installed top-level module: "
                    "raises ModuleNotFoundError when executed (missing leading dot)" % top,
                )
                continue
            if top in OPTIONAL_THIRD_PARTY:
                col.ok("E1", m, node, "optional third-party module: %s" % OPTIONAL_THIRD_PARTY[top], construct="%s | %s" % (norm(node), name))
                continue
            # unknown third-party import: must be guarded
            guarded = False
            p = m.parents()
            cur = node
            while cur is not None:
                par = p.get(cur)
                if isinstance(par, ast.Try) and any(cur is s for s in par.body):
                    for h in par.handlers:
                        for e in handler_class_exprs(h):
                            if e is None or dotted(e) in ("ImportError", "ModuleNotFoundError", "Exception", "BaseException"):
                                guarded = True
                cur = par
            col.decide("E1", m, node, guarded, "third-party import guarded by try/except ImportError",
                       "import of %r is neither standard library, package-internal, listed optional nor guarded" % top)
    col.floor("E1.import_bindings", n, 400)


INTERNAL = [("problog.engine_unify", "UnifyError"), ("problog.engine", "UnknownClauseInternal")]
EXCLUDED_INTERNAL = {
    "InvalidEngineState": "engine-invariant assertions, all raise sites in StackBasedEngine.execute marked '# pragma: no cover'",
    "TransformationUnavailable": "raised nowhere; caught in core.convert",
}


def _wrapper_classes(repo):
    """b/s/sp -> wrapper ClassInfo, from engine_stack.addBuiltIns' call of add_standard_builtins."""
    f = repo.func("problog.engine_stack", "addBuiltIns")
    for n in ast.walk(f.node):
        if isinstance(n, ast.Call) and dotted(n.func) == "add_standard_builtins" and len(n.args) == 4:
            out = {}
            for key, a in zip(("b", "s", "sp"), n.args[1:]):
                r = repo.resolve_expr(f.module, a)
                if r is None or r[0] != "class":
                    raise AnalysisError("addBuiltIns: wrapper %s not resolvable" % norm(a))
                out[key] = r[1]
            return out
    raise AnalysisError("addBuiltIns: add_standard_builtins call not found")


def _call_of_attr(func, attrname):
    for n in walk_no_nested(func.node):
        if isinstance(n, ast.Call) and isinstance(n.func, ast.Attribute) and n.func.attr == attrname and isinstance(n.func.value, ast.Name) and n.func.value.id == "self":
            return n
    return None


def rule_e2(repo, col):
    cg = CallGraph(repo)
    ef = ExcFlow(repo, cg)
    internal = [repo.cls(mn, cn) for mn, cn in INTERNAL]
    # package exception classes outside the ProbLogError hierarchy are exactly INTERNAL + EXCLUDED
    outside = []
    for c in repo.all_classes():
        ext = [b for b in repo.mro(c) if not isinstance(b, ClassInfo)]
        if any(b.split(".")[-1] in ("Exception", "BaseException") or b.split(".")[-1].endswith("Error") for b in ext):
            if not repo.is_subclass(c, "problog.errors", "ProbLogError"):
                outside.append(c)
    names = set(c.name for c in outside)
    known = set(c.name for c in internal) | set(EXCLUDED_INTERNAL)
    for c in outside:
        if c.name not in known:
            col.fail("E2", c.module, c.node, "new package exception class outside the ProbLogError hierarchy: if raised on a user path it surfaces as a crash",
                     construct="class %s(%s)" % (c.name, ", ".join(norm(b) for b in c.node.bases)), function=c.name)
    col.count("E2.exception_classes_outside_hierarchy", len(outside))
    wrappers = _wrapper_classes(repo)
    evalbuiltin = repo.func("problog.eval_nodes", "EvalBuiltIn.__call__")
    node_call = _call_of_attr(evalbuiltin, "node")
    if node_call is None:
        raise AnalysisError("EvalBuiltIn.__call__: self.node(...) call not found")
    eval_default = repo.func("problog.engine_stack", "StackBasedEngine.eval_default")
    nd = None
    for n in walk_no_nested(eval_default.node):
        if isinstance(n, ast.Call) and isinstance(n.func, ast.Name) and n.func.id == "node":
            nd = n
    if nd is None:
        raise AnalysisError("eval_default: node() call not found")
    impls = bi.implementations(repo)
    col.floor("E2.builtin_implementations", len(impls), 85)
    n_escape = 0
    for fname in sorted(impls):
        row = impls[fname]
        f = row.func
        mr = ef.may_raise(f)
        for c in internal:
            k = c.fullname
            if k not in mr:
                col.ok("E2", f.module, f.node, "%s cannot leave %s" % (c.name, fname), construct="def %s: %s" % (fname, c.name), function=fname)
                continue
            _, chain = mr[k]
            # wrappers on the way up
            caught_at = None
            steps = []
            if row.wrapper is not None:
                w = wrappers[row.wrapper]
                wc = w.methods.get("__call__")
                if wc is None:
                    raise AnalysisError("wrapper %s has no __call__" % w.name)
                bc = _call_of_attr(wc, "base_function")
                if bc is None:
                    raise AnalysisError("wrapper %s.__call__: base_function call not found" % w.name)
                steps.append((w.module, bc, "%s.__call__" % w.name))
            steps.append((evalbuiltin.module, node_call, "EvalBuiltIn.__call__"))
            steps.append((eval_default.module, nd, "StackBasedEngine.eval_default"))
            for mod, callnode, label in steps:
                if ef.caught_by(mod, callnode, c) is not None:
                    caught_at = label
                    break
            # the engine main loop catches UnknownClauseInternal around self.eval in execute
            if caught_at is None and c.name == "UnknownClauseInternal":
                ex = repo.func("problog.engine_stack", "StackBasedEngine.execute")
                for n in walk_no_nested(ex.node):
                    if isinstance(n, ast.Call) and dotted(n.func) == "self.eval" and ef.caught_by(ex.module, n, c) is not None:
                        caught_at = "StackBasedEngine.execute main loop"
            site_f, site_n = chain[-1]
            first_f, first_n = chain[0]
            if caught_at:
                col.ok("E2", f.module, first_n, "%s raised below %s is caught in %s" % (c.name, fname, caught_at),
                       construct="%s escapes %s via %s" % (c.name, fname, norm(first_n)[:80]), function=fname)
            else:
                n_escape += 1
                col.fail(
                    "E2",
                    f.module,
                    first_n,
                    "%s (not a ProbLogError) can leave builtin %s/%s and none of %s catches it: it surfaces to the user as a raw Python exception"
                    % (c.name, row.name, row.arity, ", ".join(s[2] for s in steps)),
                    construct="%s escapes %s via %s" % (c.name, fname, norm(first_n)[:80]),
                    function=fname,
                    path="raise site %s -> %s -> execute" % (chain_text(list(reversed(chain))), " -> ".join(s[2] for s in steps)),
                )
    col.count("E2.resolved_calls", cg.stats["resolved"])
    col.count("E2.unresolved_calls", cg.stats["unresolved"])
    # entry-point invariant for UnknownClauseInternal: every call of StackBasedEngine.eval is inside a handler for it,
    # or inside a function all of whose (resolved) callers are handled likewise (depth 3)
    uci = repo.cls("problog.engine", "UnknownClauseInternal")
    eng = repo.cls("problog.engine_stack", "StackBasedEngine")
    evalm = eng.methods["eval"]
    sites = cg.callers_of(lambda g: g is evalm)
    col.floor("E2.eval_call_sites", len(sites), 5)

    TOPLEVEL = {"execute", "execute_init"}
    for f, call in sites:
        if ef.caught_by(f.module, call, uci) is not None:
            col.ok("E2", f.module, call, "UnknownClauseInternal from eval is caught in %s" % f.qualname)
        elif f.name.startswith("eval_") and f.cls is not None and repo.is_subclass(f.cls, "problog.engine_stack", "StackBasedEngine"):
            col.ok("E2", f.module, call, "%s is dispatched from StackBasedEngine.eval itself (covered by eval's other call sites)" % f.qualname)
        elif f.name in TOPLEVEL and f.cls is eng:
            col.ok("E2", f.module, call, "top-level evaluation in %s: its callers are checked below" % f.qualname)
        else:
            col.fail("E2", f.module, call, "UnknownClauseInternal raised by StackBasedEngine.eval can escape through this call (no handler, not a dispatched eval_* method)")
    # callers of execute/execute_init inside the engine API (ClauseDBEngine): inside a handler, or the reasoned table
    TABLE = {"_process_directives": "directive nodes are compiled clause bodies taken from the _directive define's children; an undefined predicate inside one is evaluated through eval_call, which converts UnknownClauseInternal"}
    cde = repo.cls("problog.engine", "ClauseDBEngine")
    nsites = 0
    for mname, meth in cde.methods.items():
        for n in walk_no_nested(meth.node):
            if isinstance(n, ast.Call) and dotted(n.func) in ("self.execute", "self.execute_init"):
                nsites += 1
                if ef.caught_by(meth.module, n, uci) is not None:
                    col.ok("E2", meth.module, n, "top-level execute is wrapped by an UnknownClauseInternal handler")
                elif mname in TABLE:
                    col.ok("E2", meth.module, n, "table: " + TABLE[mname])
                else:
                    col.fail("E2", meth.module, n, "top-level execute without an UnknownClauseInternal handler: querying a reserved-but-undefined predicate surfaces the internal exception")
    col.floor("E2.api_execute_sites", nsites, 3)


def rule_e4(repo, col):
    from .. import arith
    from ..tables import cpython

    rows, final = arith.table(repo)
    col.floor("E4.arithmetic_rows", len(final), 55)
    required = {}
    for key, row in sorted(final.items()):
        for tag in arith.impl_ops(row):
            ex = cpython.exc_of_tag(tag)
            if ex is None:
                raise AnalysisError("arithmetic implementation %s/%d uses %s, which is not in the CPython semantics table" % (key[0], key[1], tag))
            for e in ex:
                required.setdefault(e, "%s/%d (%s)" % (key[0], key[1], tag))
    f = repo.func("problog.logic", "compute_function")
    m = f.module
    ef = ExcFlow(repo)
    # the dispatch call: a call of a local variable bound from _arithmetic_functions.get(...)
    disp = None
    for n in walk_no_nested(f.node):
        if isinstance(n, ast.Call) and isinstance(n.func, ast.Name) and any(isinstance(a, ast.Starred) for a in n.args):
            disp = n
    if disp is None:
        raise AnalysisError("compute_function: dispatch call function(*values) not found")
    pkg_arith = repo.cls("problog.logic", "ArithmeticError")
    for e in sorted(required):
        h = ef.caught_by(m, disp, e)
        if h is None:
            col.fail("E4", m, disp, "the arithmetic dispatcher calls implementations that raise %s (e.g. %s) but no handler around the call converts it: "
                     "the user sees a raw %s instead of a ProbLog ArithmeticError" % (e, required[e], e),
                     construct="%s: handler for %s" % (norm(disp), e))
            continue
        # the handler must raise the package's ArithmeticError (a ProbLogError)
        conv = [r for r in ast.walk(h) if isinstance(r, ast.Raise) and r.exc is not None]
        okc = bool(conv) and all(ef.exc_class_of(m, r.exc) is pkg_arith or (
            isinstance(ef.exc_class_of(m, r.exc), ClassInfo) and repo.is_subclass(ef.exc_class_of(m, r.exc), "problog.errors", "ProbLogError")) for r in conv)
        col.decide("E4", m, disp, okc, "%s is converted to a ProbLog error" % e,
                   "the handler for %s does not raise a ProbLogError" % e, construct="%s: handler for %s" % (norm(disp), e))
    # EvalBuiltIn.__call__ catches the class compute_function converts to
    evb = repo.func("problog.eval_nodes", "EvalBuiltIn.__call__")
    nc = _call_of_attr(evb, "node")
    if nc is None:
        raise AnalysisError("EvalBuiltIn.__call__: self.node(...) not found")
    h = ef.caught_by(evb.module, nc, pkg_arith)
    col.decide("E4", evb.module, nc, h is not None, "EvalBuiltIn.__call__ adds the source location to the package ArithmeticError",
               "EvalBuiltIn.__call__ no longer catches problog.logic.ArithmeticError (name resolved through the import table): arithmetic errors lose their location / a builtin exception class is caught instead")
    if h is not None:
        for r in ast.walk(h):
            if isinstance(r, ast.Raise) and r.exc is not None and isinstance(r.exc, ast.Call):
                c = ef.exc_class_of(evb.module, r.exc)
                col.decide("E4", evb.module, r, isinstance(c, ClassInfo) and repo.is_subclass(c, "problog.errors", "ProbLogError"),
                           "re-raised as a ProbLogError", "EvalBuiltIn.__call__ re-raises a non-ProbLog class")


USER_FACING_NOTE = "registered builtins (+ nested defs), all of parser.py, *Factory classes, ClauseDB compile/add methods, and module-level helpers they call by bare name"

E3_TABLE = {
    # (module, function, normalised raise) -> reason
    ("problog.parser", "PrologParser.next_token", "RuntimeError"): "dispatch default: every entry of the action tables is a method returning a tuple (checked by C17/T1)",
    ("problog.pypl", "pl2py", "ValueError"): "type-dispatch default: engine terms are Constant, Term or int variables; None is replaced by negative ints before a body goal runs (eval_clause); no reaching input could be constructed",
    ("problog.pypl", "py2pl", "ValueError"): "type-dispatch default on Python values; in the user-facing closure it is only reached through list2term on values produced by the package itself",
    ("problog.logic", "term2list", "ValueError"): "documented API contract (ValueError for a non-fixed list); every caller in the user-facing closure passes a fixed list or converts the error - see E3_CALLERS",
}
# frozen, confirmed call sites of helpers whose raise is in the table: caller -> why the raise cannot surface there
E3_CALLERS = {
    "term2list": {
        "_builtin_subquery": "evidence argument checked by check_mode letter 'L' (fixed list)",
        "_builtin_subquery_in_scope": "evidence argument checked by check_mode letter 'L' (fixed list)",
        "_build_scope": "called only with ground terms (callers check 'g'/'L'); under _is_list a ground list is fixed",
        "ClauseDB._predicate_list": "inside try/except ValueError -> GroundingError",
    },
}


def _user_facing_functions(repo, cg):
    out = []
    impls = bi.implementations(repo)
    for r in impls.values():
        out.append(r.func)
    pm = repo.module("problog.parser")
    for f in pm.functions.values():
        out.append(f)
    for c in pm.classes.values():
        out.extend(c.methods.values())
    prog = repo.module("problog.program")
    for c in prog.classes.values():
        if c.name.endswith("Factory"):
            out.extend(c.methods.values())
    cdb = repo.cls("problog.clausedb", "ClauseDB")
    for name, f in cdb.methods.items():
        if name.startswith(("_compile", "add_", "_add_", "use_module", "_create_")):
            out.append(f)
    # nested defs
    more = []
    for f in out:
        more.extend(cg.nested_functions(f).values())
    out.extend(more)
    # module-level helpers called by bare name (closure, module-level functions only)
    seen = {id(f.node) for f in out}
    work = list(out)
    while work:
        f = work.pop()
        for c in cg.calls_in(f):
            if not isinstance(c.func, ast.Name):
                continue
            for g in cg.resolve(f, c):
                if g.cls is None and g.outer is None and id(g.node) not in seen:
                    seen.add(id(g.node))
                    out.append(g)
                    work.append(g)
    return out


def rule_e3(repo, col):
    from .. import modes

    cg = CallGraph(repo)
    ef = ExcFlow(repo, cg)
    dead = modes.dead_statements(repo)
    funcs = _user_facing_functions(repo, cg)
    col.floor("E3.user_facing_functions", len(funcs), 250)
    n = 0
    # methods never called anywhere in the package are not on a user path
    called_attrs = set()
    for m in repo.modules.values():
        for node in ast.walk(m.tree):
            if isinstance(node, ast.Call):
                if isinstance(node.func, ast.Attribute):
                    called_attrs.add(node.func.attr)
                elif isinstance(node.func, ast.Name):
                    called_attrs.add(node.func.id)
            elif isinstance(node, ast.Attribute):
                called_attrs.add(node.attr)
    for f in funcs:
        m = f.module
        for r in walk_no_nested(f.node):
            if not isinstance(r, ast.Raise) or r.exc is None:
                continue
            c = ef.exc_class_of(m, r.exc)
            if isinstance(c, ClassInfo):
                if repo.is_subclass(c, "problog.errors", "ProbLogError"):
                    continue
                if c.name in ("UnifyError", "UnknownClauseInternal") or c.name in EXCLUDED_INTERNAL:
                    continue  # decided by E2
            if c is None and isinstance(r.exc, ast.Name):
                h = ef.enclosing_handler(m, r)
                if h is not None and h.name == r.exc.id:
                    continue  # re-raise of a caught exception object
            n += 1
            cname = c.name if isinstance(c, ClassInfo) else (c or norm(r.exc))
            if id(r) in dead:
                col.ok("E3", m, r, "dead: %s" % dead[id(r)])
                continue
            if c is not None and ef.caught_by(m, r, c) is not None:
                col.ok("E3", m, r, "caught locally")
                continue
            key = (m.name, f.qualname, cname)
            if key in E3_TABLE:
                if f.qualname in E3_CALLERS:
                    allowed = E3_CALLERS[f.qualname]
                    okall = True
                    for cf in funcs:
                        for cc in cg.calls_in(cf):
                            if isinstance(cc.func, ast.Name) and cc.func.id == f.qualname and any(g2 is f for g2 in cg.resolve(cf, cc)):
                                if cf.qualname in allowed:
                                    col.ok("E3", cf.module, cc, "confirmed caller of %s: %s" % (f.qualname, allowed[cf.qualname]), function=cf.qualname)
                                elif cf is f:
                                    pass
                                else:
                                    okall = False
                                    col.fail("E3", cf.module, cc, "%s calls %s, which raises %s for malformed input, and this call site is not among the confirmed ones (%s): "
                                             "the error would surface as an internal exception" % (cf.qualname, f.qualname, cname, ", ".join(sorted(allowed))), function=cf.qualname)
                    if okall:
                        col.ok("E3", m, r, "table: %s" % E3_TABLE[key])
                    continue
                col.ok("E3", m, r, "table: %s" % E3_TABLE[key])
                continue
            if f.cls is not None and f.name not in called_attrs:
                col.ok("E3", m, r, "method %s is referenced nowhere in the package (not on a user path)" % f.qualname)
                continue
            col.fail("E3", m, r, "user-facing function %s raises %s, which is not a ProbLogError: a program text that reaches this line crashes inference "
                     "with an internal Python exception" % (f.qualname, cname))
    col.floor("E3.non_problog_raises_examined", n, 4)


CHECK_FUNCS = {"check_mode", "is_variable", "_is_var", "_is_nonvar", "_is_term", "_is_atom", "_is_list", "_is_fixed_list", "_is_string", "_is_number", "_is_integer",
               "_is_float", "_is_constant", "_is_compare", "_is_object", "isinstance", "hasattr", "type"}
DEREF_FUNCS = {"int", "float", "term2list", "list_elements"}


def _first_check_line(f, param):
    best = None
    for n in walk_no_nested(f.node):
        if isinstance(n, ast.Call) and dotted(n.func) in CHECK_FUNCS:
            names = set()
            for a in n.args:
                for sub in ast.walk(a):
                    if isinstance(sub, ast.Name):
                        names.add(sub.id)
            if param in names:
                best = n.lineno if best is None else min(best, n.lineno)
    return best


def _derefs(cg, f, param, depth, seen):
    """Does f dereference `param` (attribute access / numeric conversion / passing it to a function that does) before any type check of it?
    Returns (line, description) or None."""
    if depth < 0 or (id(f.node), param) in seen:
        return None
    seen = seen | {(id(f.node), param)}
    chk = _first_check_line(f, param)
    # re-binding makes the name something else
    rebind = [n.lineno for n in walk_no_nested(f.node) if isinstance(n, ast.Name) and n.id == param and isinstance(n.ctx, ast.Store)]
    limit = min([x for x in (chk, min(rebind) if rebind else None) if x is not None], default=None)
    cands = []
    for n in walk_no_nested(f.node):
        if limit is not None and n.__dict__.get("lineno", 0) >= limit:
            continue
        if isinstance(n, ast.Attribute) and isinstance(n.value, ast.Name) and n.value.id == param and isinstance(n.ctx, ast.Load):
            cands.append((n.lineno, "%s:%d %s reads %s" % (f.module.relpath, n.lineno, f.qualname, norm(n))))
        elif isinstance(n, ast.Call):
            d = dotted(n.func)
            argnames = [a.id if isinstance(a, ast.Name) else None for a in n.args]
            if d in DEREF_FUNCS and param in argnames:
                cands.append((n.lineno, "%s:%d %s applies %s() to it" % (f.module.relpath, n.lineno, f.qualname, d)))
            elif param in argnames and d not in CHECK_FUNCS:
                for g in cg.resolve(f, n):
                    gp = g.params
                    off = 1 if (g.cls is not None and gp and gp[0] in ("self", "cls")) else 0
                    idx = argnames.index(param) + off
                    if idx < len(gp):
                        sub = _derefs(cg, g, gp[idx], depth - 1, seen)
                        if sub is not None:
                            cands.append((n.lineno, "%s:%d %s passes it to %s -> %s" % (f.module.relpath, n.lineno, f.qualname, g.qualname, sub[1])))
                            break
    if not cands:
        return None
    return sorted(cands)[0]


def rule_e5(repo, col):
    cg = CallGraph(repo)
    impls = bi.implementations(repo)
    n = 0
    for fname in sorted(impls):
        row = impls[fname]
        f = row.func
        a = f.node.args
        nd = len(a.args) - len(a.defaults)
        params = [x.arg for i, x in enumerate(a.args) if i < nd]
        for p_ in params:
            n += 1
            d = _derefs(cg, f, p_, 3, frozenset())
            if d is None:
                col.ok("E5", f.module, f.node, "argument %s of %s is type-checked before it is dereferenced" % (p_, fname), construct="def %s: argument %s" % (fname, p_), function=fname)
            else:
                col.fail("E5", f.module, f.node, "builtin %s/%s dereferences its argument %r before any type check (check_mode / is_variable / isinstance): an unbound variable is an int here, "
                         "so the call crashes with AttributeError/TypeError instead of a CallModeError (%s)" % (row.name, row.arity, p_, d[1]),
                         construct="def %s: argument %s" % (fname, p_), function=fname)
    col.floor("E5.builtin_arguments", n, 120)


def rule_e6(repo, col):
    """registry look-ups on user-supplied names"""
    init = repo.module("problog")
    nullable = {}
    raising = {}
    for name, f in init.functions.items():
        for r in walk_no_nested(f.node):
            if isinstance(r, ast.Return) and r.value is not None:
                v = r.value
                if isinstance(v, ast.Call) and isinstance(v.func, ast.Attribute) and v.func.attr == "get" and isinstance(v.func.value, ast.Name) and v.func.value.id.startswith("_") \
                        and (len(v.args) == 1 or (len(v.args) == 2 and isinstance(v.args[1], ast.Constant) and v.args[1].value is None)):
                    nullable[name] = (f, r)
                if isinstance(v, ast.Subscript) and isinstance(v.value, ast.Name) and v.value.id.startswith("_") and isinstance(v.slice, ast.Name):
                    raising[name] = (f, r)
    if not nullable and not raising:
        raise AnalysisError("problog/__init__.py: registry look-up functions not found")
    cg = CallGraph(repo)
    ef = ExcFlow(repo, cg)
    funcs = _user_facing_functions(repo, cg)
    n = 0
    for f in funcs:
        m = f.module
        parents = m.parents()
        for c in walk_no_nested(f.node):
            if not isinstance(c, ast.Call):
                continue
            d = dotted(c.func)
            if d in nullable:
                n += 1
                par = parents.get(c)
                direct = isinstance(par, ast.Attribute) and par.value is c
                col.decide("E6", m, c, not direct, "result of %s is not dereferenced directly" % d,
                           "%s() returns None for a name that is not registered (it uses dict.get), and the result is dereferenced immediately (%s): a user-supplied unknown name "
                           "crashes with AttributeError" % (d, norm(par)[:70] if par is not None else ""), function=f.qualname)
            if d in raising:
                n += 1
                # the name argument must be None-able default or validated / the call must be under except KeyError
                caught = ef.caught_by(m, c, "KeyError") is not None
                kw = [k for k in c.keywords if k.arg == "name"]
                arg = kw[0].value if kw else (c.args[0] if c.args else None)
                validated = False
                if isinstance(arg, ast.Name):
                    for t in walk_no_nested(f.node):
                        if isinstance(t, ast.Compare) and isinstance(t.ops[0], (ast.In, ast.NotIn)) and norm(t.left) == arg.id and t.lineno <= c.lineno:
                            validated = True
                col.decide("E6", m, c, caught or validated or arg is None, "registry look-up %s guarded" % d,
                           "%s() indexes its registry with the given name (KeyError for an unknown one); here the name comes from the program text and is neither validated "
                           "nor is the KeyError converted" % d, function=f.qualname)
    col.floor("E6.registry_lookups", n, 2)


ARITY_TYPES = {"And", "Or", "Not", "Clause", "AnnotatedDisjunction"}
E7_TABLE = {
    ("ClauseDB.iter_raw", "node.functor.args[0]"): "database-internal node produced by _compile, not program text",
}


def _own_wrapper(func, base, st):
    """`base` is `<v>.apply(...)` of a term <v> whose functor is known to be '_' here: the one-argument '_'(X) wrapper the compiler itself builds
    around a raw variable (a user cannot write the functor '_': the parser reads it as a variable)"""
    srcs = set()
    for n in walk_no_nested(func.node):
        if isinstance(n, ast.Assign) and len(n.targets) == 1 and norm(n.targets[0]) == base:
            v = n.value
            if isinstance(v, ast.Call) and isinstance(v.func, ast.Attribute) and v.func.attr == "apply" and isinstance(v.func.value, ast.Name):
                srcs.add(v.func.value.id)
            elif norm(v) == "%s.args[0]" % base:
                continue  # the unwrapping statement itself
            else:
                return None
    if len(srcs) != 1:
        return None
    v = srcs.pop()
    if ("%s.functor == '_'" % v, True) not in st:
        return None
    wraps = [n for n in walk_no_nested(func.node) if isinstance(n, ast.Assign) and norm(n.targets[0]) == v and isinstance(n.value, ast.Call) and dotted(n.value.func) == "Term"
             and len(n.value.args) == 2 and isinstance(n.value.args[0], ast.Constant) and n.value.args[0].value == "_"]
    if not wraps:
        return None
    return "%s is %s.apply(..) of the one-argument '_'(X) wrapper built in this function (%s.functor == '_' holds here)" % (base, v, v)


# sites whose term was validated by ClauseDB._predicate_list (every element is name/arity, or 'as'(name/arity, alias) of arity 2)
E7_VALIDATED = {
    ("ClauseDB.use_module", "pred.args[0]"): "pred iterates self._predicate_list(...): 'as'/2 or name/arity",
    ("ClauseDB.use_module", "pred.args[1]"): "pred iterates self._predicate_list(...): 'as'/2 or name/arity",
    ("ClauseDB._create_alias", "pred.args[0]"): "callers pass elements of lists produced by _predicate_list (module export/import lists) or by load_external_module",
    ("ClauseDB._create_alias", "pred.args[1]"): "callers pass elements of lists produced by _predicate_list (module export/import lists) or by load_external_module",
}


def _validator_ok(c):
    """the precondition of the E7_VALIDATED rows: _predicate_list exists, checks the indicator shape and raises a GroundingError otherwise, and use_module/add_all go through it"""
    v = c.methods.get("_predicate_list")
    if v is None:
        return False
    src = norm(v.node)
    shape = ("signature != '//2'" in src or ("functor != '/'" in src and "arity != 2" in src)) and "raise GroundingError" in src and "arity == 2" in src
    users = 0
    for name in ("use_module", "add_all"):
        f = c.methods.get(name)
        if f is not None and "self._predicate_list(" in norm(f.node):
            users += 1
    um = c.methods.get("use_module")
    loops_ok = um is not None and all("self._predicate_list(" in norm(l.iter) for l in ast.walk(um.node) if isinstance(l, ast.For) and isinstance(l.target, ast.Name) and l.target.id == "pred")
    return shape and users == 2 and loops_ok


def _arity_known(facts, base, k, menv=None):
    import re as _re

    for src, truth in facts:
        if not truth:
            continue
        if menv:
            mm = _re.match(r"^(.*\.signature) == (\w+)$", src)
            if mm and isinstance(menv.get(mm.group(2)), str):
                src = "%s == %r" % (mm.group(1), menv[mm.group(2)])
        mm = _re.match(r"^%s\.arity (==|>=|>) (\d+)$" % _re.escape(base), src)
        if mm:
            op, nn = mm.group(1), int(mm.group(2))
            if (op == "==" and nn > k) or (op == ">=" and nn > k) or (op == ">" and nn >= k):
                return "fact %s" % src
        mm = _re.match(r"^len\(%s\.args\) (==|>=|>) (\d+)$" % _re.escape(base), src)
        if mm:
            op, nn = mm.group(1), int(mm.group(2))
            if (op == "==" and nn > k) or (op == ">=" and nn > k) or (op == ">" and nn >= k):
                return "fact %s" % src
        mm = _re.match(r"^%s\.signature == '.*/(\d+)'$" % _re.escape(base), src)
        if mm and int(mm.group(1)) > k:
            return "fact %s" % src
        mm = _re.match(r"^isinstance\(%s, (\w+)\)$" % _re.escape(base), src)
        if mm and mm.group(1) in ARITY_TYPES:
            return "fact %s" % src
        mm = _re.match(r"^type\(%s\) (is|==) (\w+)$" % _re.escape(base), src)
        if mm and mm.group(2) in ARITY_TYPES:
            return "fact %s" % src
    return None


def rule_e7(repo, col):
    from .. import cfg as cfgmod

    n = 0
    for mn, cname in (("problog.clausedb", "ClauseDB"), ("problog.engine", "ClauseDBEngine")):
        c = repo.cls(mn, cname)
        m = c.module
        menv = m.module_constants()
        for f in c.methods.values():
            sites = [x for x in walk_no_nested(f.node) if isinstance(x, ast.Subscript) and isinstance(x.value, ast.Attribute) and x.value.attr == "args"
                     and isinstance(x.slice, ast.Constant) and isinstance(x.slice.value, int) and isinstance(x.ctx, ast.Load)]
            if not sites:
                continue
            g = cfgmod.build(f.node)
            facts = cfgmod.available_facts(g)
            reported = set()
            for sub in sorted(sites, key=lambda x: (x.lineno, x.col_offset)):
                base = norm(sub.value.value)
                k = sub.slice.value
                n += 1
                node = g.node_containing(sub)
                st = facts.get(node.id) if node is not None else None
                if st is None:
                    col.ok("E7", m, sub, "unreachable", function=f.qualname)
                    continue
                why = _arity_known(st, base, k, menv)
                if why:
                    col.ok("E7", m, sub, "arity known: %s" % why, function=f.qualname)
                    continue
                why = _own_wrapper(f, base, st) if k == 0 else None
                if why:
                    col.ok("E7", m, sub, "own wrapper: %s" % why, function=f.qualname)
                    continue
                key = (f.qualname, norm(sub))
                if key in E7_TABLE:
                    col.ok("E7", m, sub, "table: %s" % E7_TABLE[key], function=f.qualname)
                    continue
                if key in E7_VALIDATED and _validator_ok(c):
                    col.ok("E7", m, sub, "validated: %s" % E7_VALIDATED[key], function=f.qualname)
                    continue
                # an earlier access of the same or a higher index on every path: the first one is the site to report
                earlier = any(("%s.args[" % base) in src for src, _ in st)
                if earlier or (base, ">=%d" % k) in reported:
                    col.ok("E7", m, sub, "an earlier access of %s.args[...] on every path is the reported site" % base, function=f.qualname,
                           construct="%s (after earlier access)" % norm(sub))
                    continue
                reported.add((base, ">=%d" % k))
                col.fail("E7", m, sub, "%s indexes %s.args[%d] on a path where the arity of %s is not established (facts: %s): a term of smaller arity written in the program "
                         "raises IndexError instead of a ProbLog error" % (f.qualname, base, k, base, sorted("%s=%s" % x for x in st if base in x[0]) or "none"), function=f.qualname)
    col.floor("E7.constant_argument_indexes", n, 15)


def rule_e8(repo, col):
    """LogicProgram.lineno formats the location of every error message: a location without a character offset ((file, None) or None) must yield None, not a TypeError"""
    from .. import cfg as cfgmod

    f = repo.func("problog.program", "LogicProgram.lineno")
    m = f.module
    pos = f.params[1]
    g = cfgmod.build(f.node)
    facts = cfgmod.available_facts(g)
    n = 0
    for node in walk_no_nested(f.node):
        uses = []
        if isinstance(node, ast.BinOp) and isinstance(node.op, (ast.Add, ast.Sub)):
            uses = [x for x in (node.left, node.right) if isinstance(x, ast.Name) and x.id == pos]
        elif isinstance(node, ast.Call) and dotted(node.func).startswith("bisect"):
            uses = [x for x in node.args if isinstance(x, ast.Name) and x.id == pos]
        elif isinstance(node, ast.Compare) and any(isinstance(o, (ast.Lt, ast.LtE, ast.Gt, ast.GtE)) for o in node.ops):
            uses = [x for x in [node.left] + node.comparators if isinstance(x, ast.Name) and x.id == pos]
        for u in uses:
            cn = g.node_containing(u)
            st = facts.get(cn.id) if cn is not None else None
            if st is None:
                continue
            n += 1
            col.decide("E8", m, node, ("%s is None" % pos, False) in st, "the offset is known not to be None where it is used in %s" % norm(node)[:40],
                       "lineno uses the character offset in `%s` on a path where `%s is None` has not been excluded for the CURRENT binding of %s (a None test before the tuple is unpacked "
                       "does not cover (file, None)): formatting the location of an error then raises TypeError instead of the ProbLog error" % (norm(node)[:60], pos, pos),
                       function="LogicProgram.lineno")
    col.floor("E8.offset_uses", n, 2)


# E9 reasoned exceptions: (module, function, subscript) -> why the key is present
E9_TABLE = {
    ("problog.ground_yap", "read_grounding", "num2index[names[q]]"): "external yap grounder (not shipped); the reader registers every name in num2index before the queries are read",
    ("problog.sdd_formula_explicit", "build_explicit_from_logicdag", "node_to_indicator[mapped_line]"): "PySDD-only module; the indicator of a mapped line is created in the branch above for every line that reaches this statement",
}


def rule_e9(repo, col):
    """contradictory beliefs about a local dictionary: read with .get(k) in one place (the key may be missing) and with [k] in another without a
    membership test - one of the two is wrong (Engler et al.); on an error path the wrong one is a KeyError instead of a ProbLog error"""
    from .. import cfg as cfgmod

    n = 0
    for f in repo.all_functions():
        dicts = set()
        for x in walk_no_nested(f.node):
            if isinstance(x, ast.Assign) and len(x.targets) == 1 and isinstance(x.targets[0], ast.Name):
                v = x.value
                if (isinstance(v, ast.Dict) and not v.keys) or (isinstance(v, ast.Call) and dotted(v.func) == "dict" and not v.args and not v.keywords):
                    dicts.add(x.targets[0].id)
        if not dicts:
            continue
        gets, subs = {}, {}
        parents = None
        for x in walk_no_nested(f.node):
            if isinstance(x, ast.Call) and isinstance(x.func, ast.Attribute) and x.func.attr == "get" and isinstance(x.func.value, ast.Name) and x.func.value.id in dicts:
                gets.setdefault(x.func.value.id, []).append(x)
            if isinstance(x, ast.Subscript) and isinstance(x.ctx, ast.Load) and isinstance(x.value, ast.Name) and x.value.id in dicts:
                subs.setdefault(x.value.id, []).append(x)
        both = [d for d in sorted(dicts) if d in gets and d in subs]
        if not both:
            continue
        g = cfgmod.build(f.node)
        facts = cfgmod.available_facts(g)
        if parents is None:
            parents = f.module.parents()
        for d in both:
            for sub in subs[d]:
                cn = g.node_containing(sub)
                st = facts.get(cn.id) if cn is not None else None
                if st is None:
                    continue
                key = norm(sub.slice)
                n += 1
                if ("%s in %s" % (key, d), True) in st:
                    col.ok("E9", f.module, sub, "membership established: %s in %s" % (key, d), function=f.qualname)
                    continue
                # d[abs(k)] under the fact `k in d` where k ranges over a local collection that only ever receives abs(...) values: abs(k) == k
                if isinstance(sub.slice, ast.Call) and dotted(sub.slice.func) == "abs" and len(sub.slice.args) == 1 and isinstance(sub.slice.args[0], ast.Name):
                    kv = sub.slice.args[0].id
                    if ("%s in %s" % (kv, d), True) in st:
                        src_loops = [lp for lp in walk_no_nested(f.node) if isinstance(lp, ast.For) and isinstance(lp.target, ast.Name) and lp.target.id == kv
                                     and any(y is sub for y in ast.walk(lp))]
                        nonneg = False
                        if len(src_loops) == 1 and isinstance(src_loops[0].iter, ast.Subscript) and isinstance(src_loops[0].iter.value, ast.Name):
                            coll = src_loops[0].iter.value.id
                            adds = [c_ for c_ in walk_no_nested(f.node) if isinstance(c_, ast.Call) and isinstance(c_.func, ast.Attribute) and c_.func.attr in ("add", "append", "update", "extend")
                                    and isinstance(c_.func.value, ast.Subscript) and isinstance(c_.func.value.value, ast.Name) and c_.func.value.value.id == coll]
                            stores = [a_ for a_ in walk_no_nested(f.node) if isinstance(a_, ast.Assign) and any(isinstance(t_, ast.Subscript) and isinstance(t_.value, ast.Name)
                                      and t_.value.id == coll for t_ in a_.targets)]
                            nonneg = not stores and all(c_.func.attr == "add" and len(c_.args) == 1 and isinstance(c_.args[0], ast.Call) and dotted(c_.args[0].func) == "abs" for c_ in adds)
                        if nonneg:
                            col.ok("E9", f.module, sub, "membership established: %s in %s, and %s ranges over a collection that only receives abs(..) values" % (kv, d, kv), function=f.qualname)
                            continue
                # comprehension guard: [.. d[k] .. for k in .. if k in d]
                cur = parents.get(sub)
                guarded = False
                while cur is not None and cur is not f.node:
                    if isinstance(cur, (ast.ListComp, ast.SetComp, ast.GeneratorExp, ast.DictComp)):
                        for gen in cur.generators:
                            if any(norm(c_) == "%s in %s" % (key, d) for c_ in gen.ifs):
                                guarded = True
                    cur = parents.get(cur)
                if guarded:
                    col.ok("E9", f.module, sub, "comprehension guard: %s in %s" % (key, d), function=f.qualname)
                    continue
                # the key was stored on every path before (d[k] = ...)
                if any(src == "<stored %s[%s]>" % (d, key) for src, _ in st):
                    col.ok("E9", f.module, sub, "stored before", function=f.qualname)
                    continue
                tk = (f.module.name, f.qualname, norm(sub))
                if tk in E9_TABLE:
                    col.ok("E9", f.module, sub, "table: %s" % E9_TABLE[tk], function=f.qualname)
                    continue
                col.fail("E9", f.module, sub, "%s reads the local dictionary %s with %s although the same function reads it with %s elsewhere (so a missing key is expected) and no "
                         "membership test covers this access: a missing key raises KeyError instead of a ProbLog error" % (f.qualname, d, norm(sub), norm(gets[d][0])[:50]), function=f.qualname)
    col.floor("E9.dictionary_reads", n, 5)


def _class_tests(repo, module, paths, var, K):
    """scenario mapping for the class tests on `var` that occur in the path conditions, when var is an instance of exactly class K (ClassInfo):
    isinstance(var, C) / isinstance(var, (C, D)) -> K below C; type(var) == C / type(var) is C -> K is C"""
    from ..index import ClassInfo

    mro = [k for k in repo.mro(K) if isinstance(k, ClassInfo)]
    out = {}

    def cls_of(e):
        r = repo.resolve_name(module, norm(e)) if isinstance(e, ast.Name) else None
        return r[1] if r is not None and r[0] == "class" else None
    for p_ in paths:
        for s_, _, _ in p_.conds:
            try:
                e = ast.parse(s_, mode="eval").body
            except SyntaxError:
                continue
            for x in ast.walk(e):
                if isinstance(x, ast.Call) and dotted(x.func) == "isinstance" and len(x.args) == 2 and norm(x.args[0]) == var:
                    cs = x.args[1].elts if isinstance(x.args[1], ast.Tuple) else [x.args[1]]
                    cl = [cls_of(c_) for c_ in cs]
                    if all(c_ is not None for c_ in cl):
                        out[norm(x)] = any(c_ in mro for c_ in cl)
                if isinstance(x, ast.Compare) and len(x.ops) == 1 and isinstance(x.ops[0], (ast.Eq, ast.Is, ast.NotEq, ast.IsNot)) and norm(x.left) == "type(%s)" % var:
                    c_ = cls_of(x.comparators[0])
                    if c_ is not None:
                        v = c_ is K
                        out[norm(x)] = v if isinstance(x.ops[0], (ast.Eq, ast.Is)) else not v
    return sorted(out.items())


def rule_e10(repo, col):
    """LogicProgram.add_statement: a statement (or a head of a multi-head statement) that is a Term of a special kind - a variable, a number or string, a conjunction, a negation -
    is refused with a GroundingError; only a plain Term becomes a fact (class-dispatch table over the Term hierarchy; `type(x) == Term` and `isinstance(x, Term)` differ on subclasses)"""
    from .. import dtable
    from ..index import ClassInfo

    f = repo.func("problog.program", "LogicProgram.add_statement")
    m = f.module
    stmt = f.params[1]
    term = repo.cls("problog.logic", "Term")
    special = [repo.cls("problog.logic", k) for k in ("Var", "Constant", "And", "Not")]
    paths = dtable.extract(f.node, opaque_loops=True)
    n = 0
    for K in [term] + special:
        mapping = _class_tests(repo, m, paths, stmt, K)
        ps = dtable.compatible(paths, mapping)
        ps = [p_ for p_ in ps if all(dtable.eval_atom(s_, mapping, None) is not None or "isinstance(" not in s_ and "type(" not in s_ for s_, _, _ in p_.conds)]
        if not ps:
            raise AnalysisError("add_statement: no path for a statement of class %s" % K.name)
        facts = [p_ for p_ in ps if any(fn in ("self.add_fact", "self.add_clause") for fn, _, _ in p_.calls)]
        n += 1
        if K is term:
            col.decide("E10", m, f.node, bool(facts) and all(p_.end != "raise" for p_ in facts), "a plain Term statement is added as a fact",
                       "add_statement does not add a plain Term as a fact", construct="add_statement: statement of class Term", function="LogicProgram.add_statement")
        else:
            col.decide("E10", m, f.node, not facts and all(p_.end == "raise" and "GroundingError" in (p_.value or "") for p_ in ps), "a %s statement is refused with a GroundingError" % K.name,
                       "add_statement accepts a statement that is a %s (a subclass of Term) and hands it to add_fact / add_clause: the clause compiler then fails on it with an internal "
                       "AttributeError / TypeError ('X.' or '0.4::X.' at the top level) instead of the GroundingError 'Unexpected fact'" % K.name,
                       construct="add_statement: statement of class %s" % K.name, function="LogicProgram.add_statement")
    # heads of a multi-head statement
    loops = [lp for lp in ast.walk(f.node) if isinstance(lp, ast.For) and isinstance(lp.target, ast.Name) and any(isinstance(x, ast.Raise) for x in ast.walk(lp))]
    if len(loops) != 1:
        raise AnalysisError("add_statement: check of the heads of a multi-head statement not found")
    hv = loops[0].target.id
    hp = dtable.extract_block(loops[0].body, opaque_loops=True)
    for K in special:
        mapping = _class_tests(repo, m, hp, hv, K)
        ps = dtable.compatible(hp, mapping)
        ps = [p_ for p_ in ps if all(dtable.eval_atom(s_, mapping, None) is not None or "isinstance(" not in s_ and "type(" not in s_ for s_, _, _ in p_.conds)]
        n += 1
        col.decide("E10", m, loops[0], bool(ps) and all(p_.end == "raise" and "GroundingError" in (p_.value or "") for p_ in ps), "a head that is a %s is refused with a GroundingError" % K.name,
                   "add_statement lets a head of class %s through its head check: '0.4::a; 0.3::X.' then fails in the clause compiler with an internal error instead of a GroundingError" % K.name,
                   construct="add_statement: head of class %s" % K.name, function="LogicProgram.add_statement")
    col.floor("E10.class_rows", n, 9)


def rule_e11(repo, col):
    """ClauseDB.consult: the line table of a file is registered BEFORE its statements are added: an error raised while loading (an 'Unexpected fact' in a consulted file) formats
    its location through self.lineno(), which indexes line_info with the file's identifier"""
    f = repo.func("problog.clausedb", "ClauseDB.consult")
    m = f.module
    reg = [st for st in ast.walk(f.node) if isinstance(st, ast.Expr) and isinstance(st.value, ast.Call) and norm(st.value.func) == "self.line_info.append"]
    load = [st for st in ast.walk(f.node) if isinstance(st, (ast.Return, ast.Assign, ast.Expr)) and any(isinstance(x, ast.Call) and norm(x.func) == "self.add_all" for x in ast.walk(st))]
    if len(reg) != 1 or len(load) != 1:
        raise AnalysisError("ClauseDB.consult: registration of the line table / loading of the program not found")
    col.decide("E11", m, reg[0], reg[0].lineno < load[0].lineno, "the line table of a consulted file is registered before the file is loaded",
               "ClauseDB.consult appends the file's line table after add_all(program): while the statements are being added the file's identifier has no entry in line_info yet, so an "
               "error in the consulted file (e.g. the statement 'X.') is reported as IndexError from lineno() instead of a GroundingError with the location", construct="consult: line table registered after loading",
               function="ClauseDB.consult")


def _self_attr_reads(repo, cls, expr, depth=2, seen=None):
    """attributes of self that the value of `expr` depends on: read directly, or read by a method of self that the expression calls (followed `depth` levels, resolved from `cls`)"""
    seen = set() if seen is None else seen
    out = set()
    for x in ast.walk(expr):
        if isinstance(x, ast.Attribute) and isinstance(x.value, ast.Name) and x.value.id == "self" and isinstance(x.ctx, ast.Load):
            meth = repo.find_method(cls, x.attr)
            if meth is None:
                out.add(x.attr)
            elif depth > 0 and meth.qualname not in seen:
                seen.add(meth.qualname)
                out |= _self_attr_reads(repo, cls, meth.node, depth - 1, seen)
    return out


def stale_derived_attributes(repo, classes):
    """(subclass, init store, derived attribute, base class) where a base __init__ stores self.D computed from self.S and the __init__ of a subclass assigns self.S AFTER
    it has run the base __init__ and does not compute self.D again: D keeps the value derived from the base's S"""
    out = []
    for sub in (classes if classes is not None else repo.classes):
        init = sub.methods.get("__init__")
        if init is None:
            continue
        body = list(init.node.body)
        for i, st in enumerate(body):
            calls = [c for c in ast.walk(st) if isinstance(c, ast.Call) and isinstance(c.func, ast.Attribute) and c.func.attr == "__init__"]
            if not calls:
                continue
            for base in repo.mro(sub)[1:]:
                if not hasattr(base, "methods") or "__init__" not in base.methods:
                    continue
                derived = {}
                for b in walk_no_nested(base.methods["__init__"].node):
                    if isinstance(b, ast.Assign) and len(b.targets) == 1 and isinstance(b.targets[0], ast.Attribute) and norm(b.targets[0].value) == "self":
                        derived[b.targets[0].attr] = _self_attr_reads(repo, sub, b.value)
                later = [x for stl in body[i + 1:] for x in ast.walk(stl) if isinstance(x, ast.Assign)]
                restored = {t.attr for x in later for t in x.targets if isinstance(t, ast.Attribute) and norm(t.value) == "self"}
                for x in later:
                    for t in x.targets:
                        if isinstance(t, ast.Attribute) and norm(t.value) == "self":
                            for d, deps in sorted(derived.items()):
                                if t.attr in deps and d != t.attr and d not in restored:
                                    out.append((sub, x, d, t.attr, base))
                break
    return out


class _MiniRepo(object):
    """just enough of the index (mro, find_method) over one source text, for the positive example"""

    class _C(object):
        pass

    def __init__(self, src):
        self.classes = []
        byname = {}
        for n in ast.parse(src).body:
            if isinstance(n, ast.ClassDef):
                c = self._C()
                c.name, c.node = n.name, n
                c.bases = [byname[norm(b)] for b in n.bases if norm(b) in byname]
                c.methods = {}
                for f in n.body:
                    if isinstance(f, ast.FunctionDef):
                        mi = self._C()
                        mi.node, mi.qualname = f, "%s.%s" % (n.name, f.name)
                        c.methods[f.name] = mi
                byname[n.name] = c
                self.classes.append(c)

    def mro(self, c):
        out = [c]
        for b in c.bases:
            out += self.mro(b)
        return out

    def find_method(self, c, name):
        for k in self.mro(c):
            if name in k.methods:
                return k.methods[name]
        return None


_STALE_SELFTEST = """
class B:
    def __init__(self, xs):
        self.items = list(xs)
        self.modes = list(self._modes())

    def _modes(self):
        return [len(self.items)]


class D(B):
    def __init__(self, xs):
        B.__init__(self, xs)
        self.items = list(xs) + [0]
"""


def rule_e12(repo, col):
    """problog_export and its subclasses: what the mode check compares a call against is derived from the declared argument lists AS THE SUBCLASS LEAVES THEM (problog_export_raw
    replaces input_arguments after the base constructor ran) - a value the base constructor derived from them and nobody recomputes describes the wrong argument list"""
    pos = stale_derived_attributes(_MiniRepo(_STALE_SELFTEST), None)
    if len(pos) != 1 or pos[0][2] != "modes":
        raise AnalysisError("stale-derived-attribute rule does not fire on its positive example")
    m = repo.module("problog.extern")
    base = repo.cls("problog.extern", "problog_export")
    family = [c for c in repo.all_classes() if any(isinstance(b, ClassInfo) and b.fullname == base.fullname for b in repo.mro(c))]
    if len(family) < 3:
        raise AnalysisError("problog_export family not found")
    bad = stale_derived_attributes(repo, family)
    for sub, st, d_, s_, b_ in bad:
        col.fail("E12", sub.module, st, "%s.__init__ replaces self.%s after %s.__init__ has already derived self.%s from it: the mode check of a builtin declared with %s then compares the "
                 "call with the argument list of the base class, arguments beyond it are not type-checked and an ill-typed call reaches the conversion code "
                 "(AttributeError: 'int' object has no attribute 'strip' instead of CallModeError)" % (sub.name, s_, b_.name, d_, sub.name),
                 construct="%s.__init__: self.%s derived before self.%s is final" % (sub.name, d_, s_), function="%s.__init__" % sub.name)
    if not bad:
        col.ok("E12", m, base.node, "%d classes of the problog_export family: no constructor value is derived from an argument list that a subclass replaces afterwards" % len(family),
               construct="problog_export family: derived constructor values", function="problog_export.__init__")


def rule_e13(repo, col):
    """Builtins read kwdargs['call_origin'][k] without a test (error/1, findall, the keep_builtins naming of SimpleBuiltIn ...), eval_call supplies it for calls from a clause body.
    A builtin that is evaluated WITHOUT a calling clause - the query itself is a builtin, or engine.call() is used - must get a call origin from that entry point: EvalBuiltIn passes
    call_origin=None otherwise and the unconditional subscript is a TypeError (`query(error(x)).`)."""
    KEY = "call_origin"

    def is_key_read(x):
        if isinstance(x, ast.Subscript) and isinstance(x.slice, ast.Constant) and x.slice.value == KEY:
            return True
        return isinstance(x, ast.Call) and isinstance(x.func, ast.Attribute) and x.func.attr == "get" and x.args and isinstance(x.args[0], ast.Constant) and x.args[0].value == KEY

    derefs = []
    for f in repo.all_functions():
        parents = None
        for x in ast.walk(f.node):
            if isinstance(x, ast.Subscript) and is_key_read(x.value):
                if parents is None:
                    parents = f.module.parents()
                cur, guarded = parents.get(x), False
                while cur is not None and cur is not f.node:
                    if isinstance(cur, (ast.If, ast.IfExp)) and KEY in norm(cur.test):
                        guarded = True
                    cur = parents.get(cur)
                if not guarded:
                    derefs.append((f, x))
    m = repo.module("problog.engine")
    if not derefs:
        col.ok("E13", m, m.tree, "no builtin subscripts the call origin without a test: nothing depends on the entry points supplying it", construct="call origin: unconditional readers",
               function="<module>")
        return
    entries = []
    for f in repo.all_functions():
        gb = [c for c in ast.walk(f.node) if isinstance(c, ast.Call) and isinstance(c.func, ast.Attribute) and c.func.attr == "get_builtin"]
        ex = [c for c in ast.walk(f.node) if isinstance(c, ast.Call) and norm(c.func) == "self.execute"]
        if gb and ex:
            entries.append((f, ex))
    if len(entries) < 2:
        raise AnalysisError("entry points that evaluate a builtin without a calling clause not found (%d)" % len(entries))
    for f, ex in entries:
        for c in ex:
            ok = any(k.arg == KEY and not (isinstance(k.value, ast.Constant) and k.value.value is None) for k in c.keywords)
            star = [norm(k.value) for k in c.keywords if k.arg is None]
            for st in walk_no_nested(f.node):
                if getattr(st, "lineno", 0) >= c.lineno:
                    continue
                for y in ast.walk(st):
                    if isinstance(y, ast.Call) and isinstance(y.func, ast.Attribute) and y.func.attr == "setdefault" and norm(y.func.value) in star and y.args \
                            and isinstance(y.args[0], ast.Constant) and y.args[0].value == KEY and len(y.args) == 2 and not (isinstance(y.args[1], ast.Constant) and y.args[1].value is None):
                        ok = True
                    if isinstance(y, ast.Assign) and any(isinstance(t, ast.Subscript) and norm(t.value) in star and isinstance(t.slice, ast.Constant) and t.slice.value == KEY for t in y.targets) \
                            and not (isinstance(y.value, ast.Constant) and y.value.value is None):
                        ok = True
            col.decide("E13", f.module, c, ok, "%s gives the builtin it evaluates a call origin" % f.qualname,
                       "%s looks the goal up with get_builtin and evaluates it with self.execute(...) without a call_origin: EvalBuiltIn then passes call_origin=None to the builtin, and %d "
                       "builtin readers subscript it without a test (first: %s:%d in %s) - `query(error(x)).` ends in TypeError: 'NoneType' object is not subscriptable instead of UserError"
                       % (f.qualname, len(derefs), derefs[0][0].module.relpath, derefs[0][1].lineno, derefs[0][0].qualname),
                       construct="%s: builtin evaluated without a call origin" % f.qualname, function=f.qualname)
    col.count("E13.unconditional_readers", len(derefs))


def rule_e14(repo, col):
    """</2, >/2, =</2, >=/2 compare the values compute_value returns; a string constant computes to a Python str, so `"abc" > 1` is a TypeError unless the comparison is attempted
    under a handler for it"""
    mod = repo.module("problog.engine_builtin")
    n = 0
    # operand helpers: module functions that return compute_value results (possibly as a pair)
    helpers = {h.name for h in mod.functions.values() if any(isinstance(r, ast.Return) and r.value is not None and (
        any(isinstance(x, ast.Call) and isinstance(x.func, ast.Attribute) and x.func.attr == "compute_value" for x in ast.walk(r.value)) or any(
            isinstance(a, ast.Assign) and isinstance(a.value, ast.Call) and isinstance(a.value.func, ast.Attribute) and a.value.func.attr == "compute_value"
            and any(isinstance(t, ast.Name) and t.id in {y.id for y in ast.walk(r.value) if isinstance(y, ast.Name)} for t in a.targets) for a in ast.walk(h.node)))
        for r in ast.walk(h.node))}
    for f in mod.functions.values():
        vals = set()
        for st in ast.walk(f.node):
            if isinstance(st, ast.Assign) and isinstance(st.value, ast.Call) and ((isinstance(st.value.func, ast.Attribute) and st.value.func.attr == "compute_value") or (
                    isinstance(st.value.func, ast.Name) and st.value.func.id in helpers and st.value.func.id != f.name)):
                for t in st.targets:
                    vals |= {y.id for y in ast.walk(t) if isinstance(y, ast.Name)}
        parents = None
        for c in ast.walk(f.node):
            if not (isinstance(c, ast.Compare) and any(isinstance(o, (ast.Lt, ast.LtE, ast.Gt, ast.GtE)) for o in c.ops)):
                continue
            computed = any((isinstance(x, ast.Name) and x.id in vals) or (isinstance(x, ast.Call) and isinstance(x.func, ast.Attribute) and x.func.attr == "compute_value") for x in ast.walk(c))
            if not computed:
                continue
            n += 1
            if parents is None:
                parents = mod.parents()
            cur, prev, guarded = parents.get(c), c, False
            while cur is not None and cur is not f.node:
                if isinstance(cur, ast.Try) and any(prev is b for b in cur.body):
                    for h in cur.handlers:
                        names = [norm(e) for e in handler_class_exprs(h)] if h.type is not None else ["BaseException"]
                        if set(names) & {"TypeError", "Exception", "BaseException"}:
                            guarded = True
                prev, cur = cur, parents.get(cur)
            col.decide("E14", mod, c, guarded, "%s: the order comparison of computed values is attempted under a TypeError handler" % f.name,
                       "%s compares computed values with `%s` outside any TypeError handler: a string constant computes to a Python str, so `\"abc\" > 1` ends in TypeError: '>' not supported "
                       "between instances of 'str' and 'int' instead of a ProbLog error" % (f.name, norm(c)), construct="%s: unguarded order comparison of computed values" % f.name, function=f.name)
    col.floor("E14.comparisons", n, 4)


def rule_e15(repo, col):
    """float(<text>) accepts 'inf' and 'nan'; round() and int() of such a value raise OverflowError / ValueError (CPython table).  In the builtin implementations every round()/int()
    of a local that was produced by float(..) is attempted under handlers for both classes or behind a math.isfinite() test of that local."""
    mod = repo.module("problog.engine_builtin")
    parents = mod.parents()
    n = 0
    for f in mod.functions.values():
        floats = set()
        for st in walk_no_nested(f.node):
            if isinstance(st, ast.Assign) and isinstance(st.value, ast.Call) and isinstance(st.value.func, ast.Name) and st.value.func.id == "float" and len(st.value.args) == 1 \
                    and not isinstance(st.value.args[0], ast.Constant):
                floats |= {t.id for t in st.targets if isinstance(t, ast.Name)}
        if not floats:
            continue
        for c in walk_no_nested(f.node):
            if not (isinstance(c, ast.Call) and isinstance(c.func, ast.Name) and c.func.id in ("round", "int") and len(c.args) >= 1 and isinstance(c.args[0], ast.Name) and c.args[0].id in floats):
                continue
            v = c.args[0].id
            n += 1
            finite = "math.isfinite(%s)" % v
            guarded = False
            cur, prev = parents.get(c), c
            while cur is not None and cur is not f.node:
                if isinstance(cur, ast.BoolOp) and isinstance(cur.op, ast.And):
                    idx = [i for i, x in enumerate(cur.values) if x is prev]
                    if idx and any(norm(x) == finite for x in cur.values[:idx[0]]):
                        guarded = True
                if isinstance(cur, (ast.If, ast.IfExp)):
                    in_body = (prev in cur.body) if isinstance(cur, ast.If) else (prev is cur.body)
                    tests = cur.test.values if isinstance(cur.test, ast.BoolOp) and isinstance(cur.test.op, ast.And) else [cur.test]
                    if in_body and any(norm(x) == finite for x in tests):
                        guarded = True
                if isinstance(cur, ast.Try) and any(prev is b for b in cur.body):
                    caught = set()
                    for h in cur.handlers:
                        caught |= set(norm(e) for e in handler_class_exprs(h)) if h.type is not None else {"BaseException"}
                    if caught & {"Exception", "BaseException"} or ({"OverflowError", "ValueError"} <= caught) or ({"ArithmeticError", "ValueError"} <= caught):
                        guarded = True
                prev, cur = cur, parents.get(cur)
            col.decide("E15", mod, c, guarded, "%s: %s of a float() result is guarded against inf / nan" % (f.name, norm(c)),
                       "%s calls %s on the result of float(<text>) with no math.isfinite() test and no handler for OverflowError and ValueError: float('inf') and float('nan') are accepted, "
                       "round(inf) is an OverflowError and round(nan) a ValueError - `atom_number(inf, X)` ends in OverflowError: cannot convert float infinity to integer"
                       % (f.name, norm(c)), construct="%s: %s(..) of a float() result" % (f.name, c.func.id), function=f.name)
    col.floor("E15.conversions", n, 2)


def rule_e16(repo, col):
    """a function that tests len(X) of a local result list and then reads X[k] for a constant k: the length tests that leave the function (raise / return) must cover every
    length 0..k - a guard weakened from `!= 1` to `> 1` lets the empty result through to X[0] (IndexError)"""
    from .. import dtable

    n = 0
    for f in repo.all_functions():
        if f.module.name not in ("problog.clausedb", "problog.engine", "problog.engine_stack", "problog.engine_builtin", "problog.program", "problog.extern"):
            continue
        body = f.node.body
        for i, st in enumerate(body):
            for x in ast.walk(st):
                if not (isinstance(x, ast.Subscript) and isinstance(x.value, ast.Name) and isinstance(x.ctx, ast.Load) and isinstance(x.slice, ast.Constant)
                        and isinstance(x.slice.value, int) and not isinstance(x.slice.value, bool) and x.slice.value >= 0):
                    continue
                name, k = x.value.id, x.slice.value
                lsrc = "len(%s)" % name
                guards = [g for g in body[:i] if isinstance(g, ast.If) and not g.orelse and g.body and isinstance(g.body[-1], (ast.Raise, ast.Return)) and lsrc in norm(g.test)]
                if not guards:
                    continue
                # the list must not be re-bound between the guards and the read
                if any(isinstance(a, ast.Assign) and any(isinstance(t, ast.Name) and t.id == name for t in a.targets) for g in body[body.index(guards[0]):i] for a in ast.walk(g)):
                    continue
                n += 1
                open_len = []
                for ln in range(0, k + 1):
                    vals = [dtable.eval_atom(norm(g.test), [(lsrc, ln)], default=None) for g in guards]
                    if any(v is None for v in vals):
                        open_len = None
                        break
                    if not any(vals):
                        open_len.append(ln)
                if open_len is None:
                    continue  # the guards also depend on something else: no verdict from this rule
                col.decide("E16", f.module, x, not open_len, "%s: %s is read only for lengths the guards let through (> %d)" % (f.qualname, norm(x), k),
                           "%s reads %s although its own length tests (%s) let a list of length %s through: IndexError instead of the error the guard reports "
                           "(a Prolog-defined semiring function without an answer: `list index out of range` instead of InvalidValue)"
                           % (f.qualname, norm(x), "; ".join(norm(g.test) for g in guards), ", ".join(map(str, open_len))),
                           construct="%s: %s after a length test that admits a shorter list" % (f.qualname, norm(x)), function=f.qualname)
    col.floor("E16.guarded_reads", n, 1)


def run(repo, col):
    col.rule("E9", "no contradictory key beliefs about a local dictionary (.get here, [k] there)")
    col.rule("E8", "the error-location formatter tolerates locations without an offset")
    col.rule("E1", "import resolution")
    col.rule("E2", "containment of internal control exceptions (UnifyError, UnknownClauseInternal)")
    col.rule("E3", "no explicit non-ProbLog raise in user-facing functions (%s)" % USER_FACING_NOTE)
    col.rule("E4", "handler coverage of the arithmetic dispatcher against the CPython exception table")
    rule_e1(repo, col)
    rule_e2(repo, col)
    rule_e3(repo, col)
    rule_e4(repo, col)
    col.rule("E5", "builtin arguments are type-checked before they are dereferenced (interprocedural, depth 3)")
    col.rule("E6", "registry look-ups on user-supplied names are guarded")
    col.rule("E7", "constant argument index only after the arity is known (ClauseDB / ClauseDBEngine)")
    rule_e5(repo, col)
    rule_e6(repo, col)
    rule_e7(repo, col)
    rule_e8(repo, col)
    rule_e9(repo, col)
    col.rule("E10", "statements of a special Term kind are refused with a ProbLog error")
    rule_e10(repo, col)
    col.rule("E11", "consult registers the line table before loading")
    rule_e11(repo, col)
    col.rule("E12", "export decorators: nothing derived from an argument list that a subclass constructor replaces later")
    rule_e12(repo, col)
    col.rule("E13", "a builtin evaluated without a calling clause still gets a call origin")
    rule_e13(repo, col)
    col.rule("E14", "order comparisons of computed values are attempted under a TypeError handler")
    rule_e14(repo, col)
    col.rule("E15", "round()/int() of a float(<text>) result is guarded against inf and nan")
    rule_e15(repo, col)
    col.rule("E16", "a constant index into a result list is covered by the function's own length tests")
    rule_e16(repo, col)
