"""C09 (partial) -- Clark's completion has the right clause shape; cycle breaking and constraints carry the structure over."""
import ast

from ..index import AnalysisError, norm, walk_no_nested
from ..astutil import dotted, const_value
from .. import dtable
from .. import pattern as pat

EXPLANATION = (
    "Decides the clause-shape part of C09: K1 clause templates of clarks_completion: a conjunction i with children c yields (i or not c1 or ... or not cn) "
    "and (not i or c) for each c; a disjunction yields (not i or c1 or ... or cn) and (i or not c) for each c; atoms contribute no clause; an unknown "
    "node type raises; CNF.add_clause stores [head] + body; K2 the function copies the weights (set_weights(source.get_weights())), adds one CNF atom "
    "per source node, copies every constraint and every labelled name; K3 _break_cycles returns the FALSE key for a node that is among its ancestors "
    "and records it in cycles_broken, recurses with ancestors + [node], reuses a translated node only under `broken cycles subset of ancestors and no "
    "ancestor in its content`, rebuilds conjunctions with add_and and disjunctions with add_or, re-adds atoms with identifier/probability/group/name/"
    "is_extra, and negates the result exactly for negative literals; K4 ConstraintAD.as_clauses emits, for a non-trivial constraint, one binary clause "
    "of two negated literals for every unordered pair of nodes + [extra_node] (inner loop over nodes[i + 1:]) and exactly one clause with all of them "
    "positive; K5 ConstraintAD.update_weights gives every member (pos, ad_negate(pos, neg)) and the extra node (complement, ad_negate(complement, one())). "
    "Equivalence for all assignments is not decided."
    " Added after seed round 6: K6 the translation memo of _break_cycles is keyed by the node only although the translation depends on is_evidence: passes with different is_evidence values get different tables."
    " Added after seed round 7: K7 _break_cycles substitutes a propagated evidence value only on paths where is_evidence is false."
    " Added after seed round 8: K8 a memo table inside one transformation function is written under the key form it is read under (module scan, positive example)."
    " Added after seed round 9: K9 set_weights stores and get_weights returns every entry it is given (plain reference or unfiltered copy)."
    " Added after seed round 11: K10 evidence_all reports every entry as get_names stores it plus its value (1 / -1 / 0): the sign of an undetermined entry survives."
)
TECHNIQUE = "static analysis: clause-template extraction from the AST, decision-table extraction of _break_cycles"
LEVEL_TEXT = EXPLANATION


def _body_form(arg, loopvar, nodev="node"):
    s = norm(arg)
    ch = "%s.children" % nodev
    if s in (ch, "list(%s)" % ch, "tuple(%s)" % ch):
        return "all-pos"
    # list(map(lambda x: -x, children)) / [-x for x in children]
    a = arg
    if isinstance(a, ast.Call) and dotted(a.func) in ("list", "tuple") and len(a.args) == 1:
        a = a.args[0]
    if isinstance(a, ast.Call) and dotted(a.func) == "map" and len(a.args) == 2 and norm(a.args[1]) == ch and isinstance(a.args[0], ast.Lambda):
        lam = a.args[0]
        if len(lam.args.args) == 1 and norm(lam.body) == "-%s" % lam.args.args[0].arg:
            return "all-neg"
    if isinstance(a, (ast.ListComp, ast.GeneratorExp)) and len(a.generators) == 1 and norm(a.generators[0].iter) == ch and not a.generators[0].ifs \
            and isinstance(a.generators[0].target, ast.Name):
        v = a.generators[0].target.id
        if norm(a.elt) == "-%s" % v:
            return "all-neg"
        if norm(a.elt) == v:
            return "all-pos"
    if loopvar is not None and s == "[%s]" % loopvar:
        return "each-pos"
    if loopvar is not None and s == "[-%s]" % loopvar:
        return "each-neg"
    return "?" + s


def _head_sign(arg, ix):
    s = norm(arg)
    if s == ix:
        return "+i"
    if s == "-%s" % ix:
        return "-i"
    return "?" + s


def rule_k1_k2(repo, col):
    f = repo.func("problog.cnf_formula", "clarks_completion")
    m = f.module
    src, dst = f.params[0], f.params[1]
    main = None
    for n in walk_no_nested(f.node):
        if isinstance(n, ast.For) and norm(n.iter) == src and isinstance(n.target, ast.Tuple) and len(n.target.elts) == 3:
            main = n
    if main is None:
        raise AnalysisError("clarks_completion: loop over the source nodes not found")
    ix, nodev, ntype = [e.id for e in main.target.elts]
    paths = dtable.extract_block(main.body, opaque_loops=True)
    table = {}
    default_raises = False
    kinds_seen = set()
    for p in paths:
        kind = None
        all_false = True
        for s_, t, _ in p.conds:
            mm = None
            if s_.startswith("%s == " % ntype):
                lit = s_[len("%s == " % ntype):]
                try:
                    val = ast.literal_eval(lit)
                except Exception:
                    continue
                kinds_seen.add(val)
                if t:
                    kind = val
                    all_false = False
        if kind is None:
            if p.end == "raise":
                default_raises = True
            continue
        rows = set()

        def collect(stmts, loopvar):
            for st in stmts:
                if isinstance(st, ast.For) and norm(st.iter) == "%s.children" % nodev and isinstance(st.target, ast.Name):
                    collect(st.body, st.target.id)
                elif isinstance(st, ast.Expr) and isinstance(st.value, ast.Call) and dotted(st.value.func) == "%s.add_clause" % dst and len(st.value.args) == 2:
                    rows.add((_head_sign(st.value.args[0], ix), _body_form(st.value.args[1], loopvar, nodev)))
                elif isinstance(st, (ast.Pass, ast.If, ast.Continue)):
                    pass
                else:
                    rows.add(("?", norm(st)[:50]))

        collect([st for st in p.stmts if not isinstance(st, ast.If)], None)
        # statements nested in a for loop are collected through the loop statement itself
        table.setdefault(kind, (set(), p.stmts[0]))[0].update(rows)
    if not table:
        raise AnalysisError("clarks_completion: node-type dispatch not found")
    want = {"conj": {("+i", "all-neg"), ("-i", "each-pos")}, "disj": {("-i", "all-pos"), ("+i", "each-neg")}, "atom": set()}
    for kind, exp in want.items():
        if kind not in table:
            col.fail("K1", m, main, "clarks_completion has no branch for node type %r" % kind, construct="completion of %s" % kind, function="clarks_completion")
            continue
        got, node = table[kind]
        col.decide("K1", m, node, got == exp, "completion of %s: %s" % (kind, sorted(exp)),
                   "Clark's completion of a %s node must emit %s, found %s: the CNF is no longer equivalent to the definition (head <-> body)" % (kind, sorted(exp), sorted(got)),
                   construct="completion of %s" % kind, function="clarks_completion")
    col.decide("K1", m, main, default_raises, "unknown node types raise", "an unknown node type must raise", construct="completion default", function="clarks_completion")
    ac = repo.func("problog.cnf_formula", "CNF.add_clause")
    st = [norm(s) for s in ac.node.body if not (isinstance(s, ast.Expr) and isinstance(s.value, ast.Constant))]
    col.decide("K1", m, ac.node, "self._clauses.append([head] + list(body))" in st and "self._clausecount += 1" in st, "add_clause stores [head] + body",
               "CNF.add_clause must store the clause [head] + body and count it", construct="def add_clause", function="CNF.add_clause")
    # K2
    body = norm(f.node)
    col.decide("K2", m, f.node, "%s.set_weights(%s.get_weights())" % (dst, src) in body, "weights copied", "clarks_completion must copy the weights: set_weights(source.get_weights())",
               construct="clarks_completion: weights", function="clarks_completion")
    okc = any(isinstance(n, ast.For) and norm(n.iter) == "%s.constraints()" % src and any("%s.add_constraint(" % dst in norm(s) for s in n.body) for n in walk_no_nested(f.node))
    col.decide("K2", m, f.node, okc, "constraints copied", "clarks_completion must copy every constraint of the source", construct="clarks_completion: constraints", function="clarks_completion")
    okn = any(isinstance(n, ast.For) and "get_names_with_label" in norm(n.iter) and any("%s.add_name(" % dst in norm(s) for s in n.body) for n in walk_no_nested(f.node))
    col.decide("K2", m, f.node, okn, "names copied", "clarks_completion must copy every labelled name (queries, evidence)", construct="clarks_completion: names", function="clarks_completion")
    oka = False
    for n in walk_no_nested(f.node):
        if isinstance(n, ast.For) and isinstance(n.target, ast.Name) and isinstance(n.iter, ast.Call) and dotted(n.iter.func) == "range":
            v = n.target.id
            rng = [norm(a) for a in n.iter.args]
            adds = [x for x in ast.walk(n) if isinstance(x, ast.Call) and dotted(x.func) == "%s.add_atom" % dst and x.args]
            if not adds:
                continue
            first = norm(adds[0].args[0])
            if (rng in (["0", "num_atoms"], ["num_atoms"]) and first == "%s + 1" % v) or (rng == ["1", "num_atoms + 1"] and first == v):
                oka = "num_atoms = len(%s)" % src in body
    col.decide("K2", m, f.node, oka, "one CNF variable per source node", "clarks_completion must add one CNF atom per source node (1..len(source))",
               construct="clarks_completion: atoms", function="clarks_completion")
    # constraint clauses are appended by CNF.add_constraint
    adc = repo.func("problog.cnf_formula", "CNF.add_constraint")
    s = norm(adc.node)
    col.decide("K2", m, adc.node, "BaseFormula.add_constraint(self, constraint)" in s and "constraint.as_clauses()" in s and "self.add_clause(" in s,
               "CNF.add_constraint registers the constraint and emits its clauses", "CNF.add_constraint must register the constraint and add constraint.as_clauses()",
               construct="def add_constraint", function="CNF.add_constraint")


def _negate_helpers(repo, modname):
    """module-level helpers h(.., node, .., flag, ..) whose decision table is: flag -> <x>.negate(node), not flag -> node.  name -> (index of node, index of flag)"""
    out = {}
    m = repo.modules[modname]
    for name, f in m.functions.items():
        try:
            paths = dtable.extract(f.node)
        except AnalysisError:
            continue
        if len(paths) != 2 or not all(p_.end == "return" and len(p_.conds) == 1 for p_ in paths):
            continue
        flags = {p_.conds[0][0] for p_ in paths}
        if len(flags) != 1 or list(flags)[0] not in f.params:
            continue
        flag = list(flags)[0]
        t = {p_.conds[0][1]: p_.value for p_ in paths}
        for prm in f.params:
            if prm != flag and t.get(False) == prm and t.get(True) is not None and t[True].endswith(".negate(%s)" % prm):
                out[name] = (f.params.index(prm), f.params.index(flag))
    return out


def rule_k3(repo, col):
    f = repo.func("problog.cycles", "_break_cycles")
    m = f.module
    paths = dtable.extract(f.node, opaque_loops=True)
    helpers = _negate_helpers(repo, "problog.cycles")
    problems = []
    n_anc = 0
    for p in paths:
        conds = [(s, t) for s, t, _ in p.conds]
        if ("abs(nodeid) in ancestors", True) in conds:
            n_anc += 1
            adds = [a for fn, a, _ in p.calls if fn == "cycles_broken.add"]
            if not (p.end == "return" and p.value == "None"):
                problems.append("a node that is its own ancestor must be replaced by the FALSE key (None)")
            if adds != [["abs(nodeid)"]]:
                problems.append("a broken cycle must be recorded in cycles_broken")
        if p.end == "return" and p.value not in ("None",) and ("abs(nodeid) in ancestors", False) in conds:
            neg = dict(conds).get("nodeid < 0")
            hv = None
            try:
                hv = ast.parse(p.value, mode="eval").body
            except SyntaxError:
                pass
            if neg is None and isinstance(hv, ast.Call) and dotted(hv.func) in helpers and not hv.keywords:
                # the sign is applied by a conditional-negate helper: its flag must be the sign of the literal
                fl = norm(hv.args[helpers[dotted(hv.func)][1]])
                if fl != "nodeid < 0":
                    problems.append("the literal's node is negated under `%s`; it must be negated exactly for a negative literal (nodeid < 0)" % fl)
                continue
            if neg is True and not p.value.startswith("target.negate("):
                problems.append("a negative literal must return the negation of the translated node (found %s)" % p.value)
            if neg is False and p.value.startswith("target.negate("):
                problems.append("a positive literal must not be negated")
    if n_anc < 1:
        raise AnalysisError("_break_cycles: ancestor test not found in the decision table")
    col.decide("K3", m, f.node, not problems, "ancestor -> FALSE + recorded; sign handled on every return",
               "_break_cycles: %s" % "; ".join(sorted(set(problems))), construct="def _break_cycles: ancestor/sign table", function="_break_cycles")
    src = norm(f.node)
    rec = [n for n in walk_no_nested(f.node) if isinstance(n, ast.Call) and dotted(n.func) == "_break_cycles"]
    okr = any(len(c.args) >= 4 and norm(c.args[3]) == "ancestors + [nodeid]" and norm(c.args[2]) == "child" for c in rec)
    col.decide("K3", m, rec[0] if rec else f.node, okr, "children are translated with ancestors + [nodeid]", "the recursion must pass ancestors + [nodeid] for each child",
               **({} if rec else {"construct": "recursion", "function": "_break_cycles"}))
    r1 = pat.find("V_anc = frozenset(ancestors + [nodeid])", f.node)
    okreuse = False
    if len(r1) == 1:
        anc = r1[0][1]["V_anc"]
        okreuse = any(isinstance(n, ast.If) and pat.match(pat.parse_expr("V_cb <= %s and (not %s & V_cn)" % (anc, anc)), n.test) is not None for n in ast.walk(f.node))
    col.decide("K3", m, f.node, okreuse,
               "a translated node is reused only if its broken cycles are ancestors and its content avoids all ancestors",
               "the reuse condition of translated nodes must be `cb <= ancset and not ancset & cn` with ancset = frozenset(ancestors + [nodeid])",
               construct="_break_cycles: reuse condition", function="_break_cycles")
    # on reuse, the cycles broken inside the reused node and its content are charged to the caller's accumulators
    okacc = False
    for loop in [n for n in ast.walk(f.node) if isinstance(n, ast.For) and isinstance(n.target, ast.Tuple) and len(n.target.elts) == 3 and "translation[" in norm(n.iter)]:
        nn, cb, cn = [e.id for e in loop.target.elts]
        for iff in [x for x in ast.walk(loop) if isinstance(x, ast.If)]:
            body = [norm(x) for x in iff.body]
            if any(b.startswith("return") or "return" in b for b in body) or any(isinstance(x, ast.If) for x in iff.body):
                if "cycles_broken |= %s" % cb in body and "content |= %s" % cn in body:
                    okacc = True
    col.decide("K3", m, f.node, okacc, "reusing a translated node charges its broken cycles and its content to the caller (cycles_broken |= cb; content |= cn)",
               "when _break_cycles reuses a previously translated node it must add that node's broken cycles to cycles_broken and its content to content: otherwise a parent built "
               "on the reused node is cached as cycle-free and later reused where the cut is not valid (queries in a particular order get a too small formula)",
               construct="_break_cycles: reuse accumulates cycles_broken/content", function="_break_cycles")
    okb = False
    for n in walk_no_nested(f.node):
        if isinstance(n, ast.If) and norm(n.test) == "nodetype == 'conj'" and len(n.body) == 1 and len(n.orelse) == 1:
            okb = norm(n.body[0]).startswith("newnode = target.add_and(children") and norm(n.orelse[0]).startswith("newnode = target.add_or(children")
    col.decide("K3", m, f.node, okb, "conjunctions rebuilt with add_and, disjunctions with add_or", "conj nodes must be rebuilt with add_and and the others with add_or",
               construct="_break_cycles: rebuild", function="_break_cycles")
    atom = [n for n in walk_no_nested(f.node) if isinstance(n, ast.Call) and dotted(n.func) == "target.add_atom"]
    oka = len(atom) == 1 and [norm(a) for a in atom[0].args] == ["node.identifier", "node.probability"] and \
        dict((k.arg, norm(k.value)) for k in atom[0].keywords) == {"group": "node.group", "name": "node.name", "is_extra": "node.is_extra"}
    col.decide("K3", m, atom[0] if atom else f.node, oka, "atoms are re-added field by field (identifier, probability, group, name, is_extra)",
               "atoms must be re-added with identifier, probability, group=, name=, is_extra= of the source node", **({} if atom else {"construct": "atoms", "function": "_break_cycles"}))


def rule_k3b(repo, col):
    """break_cycles: evidence literals are translated on abs(n) and negated afterwards exactly for n < 0"""
    f = repo.func("problog.cycles", "break_cycles")
    m = f.module
    loops = [n for n in walk_no_nested(f.node) if isinstance(n, ast.For) and "evidence_all()" in norm(n.iter) and isinstance(n.target, ast.Tuple) and len(n.target.elts) == 3]
    if len(loops) != 1:
        raise AnalysisError("break_cycles: evidence loop not found")
    l = loops[0]
    q, nv, vv = [e.id for e in l.target.elts]
    calls = [c for c in ast.walk(l) if isinstance(c, ast.Call) and dotted(c.func) == "_break_cycles"]
    if len(calls) != 1:
        raise AnalysisError("break_cycles: _break_cycles call in the evidence loop not found")
    arg = norm(calls[0].args[2])
    negs = [x for x in l.body if isinstance(x, ast.If) and any(norm(y) == "newnode = target.negate(newnode)" for y in x.body)]
    neg_guard = norm(negs[0].test) if negs else None
    if not negs:
        # the same step through a conditional-negate helper: newnode = h(target, newnode, <guard>)
        helpers = _negate_helpers(repo, "problog.cycles")
        for x in l.body:
            if isinstance(x, ast.Assign) and norm(x.targets[0]) == "newnode" and isinstance(x.value, ast.Call) and dotted(x.value.func) in helpers and not x.value.keywords:
                ni, fi = helpers[dotted(x.value.func)]
                if norm(x.value.args[ni]) == "newnode":
                    negs = [x]
                    neg_guard = norm(x.value.args[fi])
    if arg == "abs(%s)" % nv:
        ok = neg_guard in ("%s is not None and %s < 0" % (nv, nv), "%s < 0" % nv)
        why = "the node is translated on abs(n); the result must then be negated exactly when n < 0 (found guard %s)" % neg_guard
    elif arg == nv:
        ok = not negs
        why = "the node is translated with its sign (which already negates the result), so it must not be negated a second time"
    else:
        raise AnalysisError("break_cycles: evidence node argument not understood: %s" % arg)
    col.decide("K3", m, calls[0], ok, "evidence literals keep their sign through cycle breaking", "break_cycles evidence loop: %s" % why,
               construct="break_cycles: evidence sign pairing (%s / %s)" % (arg, neg_guard), function="break_cycles")
    labels = {}
    for x in ast.walk(l):
        if isinstance(x, ast.If):
            t = norm(x.test)
            for y in x.body:
                if isinstance(y, ast.Expr) and "add_name(" in norm(y):
                    labels[t] = norm(y)
    okl = "LABEL_EVIDENCE_POS" in labels.get("%s > 0" % vv, "") and "LABEL_EVIDENCE_NEG" in labels.get("%s < 0" % vv, "")
    col.decide("K3", m, l, okl, "observed-true evidence keeps LABEL_EVIDENCE_POS, observed-false LABEL_EVIDENCE_NEG",
               "break_cycles must re-label evidence with v > 0 as LABEL_EVIDENCE_POS and v < 0 as LABEL_EVIDENCE_NEG", construct="break_cycles: evidence labels", function="break_cycles")


def rule_k4_k5(repo, col):
    c = repo.cls("problog.constraint", "ConstraintAD")
    m = c.module
    f = c.methods.get("as_clauses")
    if f is None:
        raise AnalysisError("ConstraintAD.as_clauses missing")
    src = norm(f.node)
    ok_nodes = "nodes = list(self.nodes) + [self.extra_node]" in src
    okp = None  # None = shape not recognised
    gens = []
    for n in ast.walk(f.node):
        if isinstance(n, ast.For) and norm(n.iter) == "enumerate(nodes)" and isinstance(n.target, ast.Tuple):
            inner = [x for x in n.body if isinstance(x, ast.For)]
            if inner and isinstance(inner[0].target, ast.Name):
                elt = [x.value.args[0] for x in inner[0].body if isinstance(x, ast.Expr) and isinstance(x.value, ast.Call) and norm(x.value.func) == "lines.append" and x.value.args]
                if elt:
                    gens.append(([e.id for e in n.target.elts], norm(inner[0].iter), inner[0].target.id, norm(elt[0])))
        if isinstance(n, (ast.ListComp, ast.GeneratorExp)) and len(n.generators) == 2 and norm(n.generators[0].iter) == "enumerate(nodes)" \
                and isinstance(n.generators[0].target, ast.Tuple) and isinstance(n.generators[1].target, ast.Name) and not n.generators[0].ifs and not n.generators[1].ifs:
            gens.append(([e.id for e in n.generators[0].target.elts], norm(n.generators[1].iter), n.generators[1].target.id, norm(n.elt)))
    if len(gens) == 1:
        (iv, nv), inner_iter, mv, elt = gens[0]
        okp = inner_iter == "nodes[%s + 1:]" % iv and elt in ("(-%s, -%s)" % (nv, mv), "(-%s, -%s)" % (mv, nv))
    if okp is None:
        raise AnalysisError("ConstraintAD.as_clauses: pairwise loop not recognised")
    col.decide("K4", m, f.node, ok_nodes and okp, "mutual exclusion: one clause (-n, -m) per unordered pair of nodes + [extra_node]",
               "as_clauses must emit (-n, -m) for every unordered pair of list(self.nodes) + [self.extra_node] (inner loop over nodes[i + 1:]): otherwise two heads of one "
               "annotated disjunction can be true together, or a head excludes itself", construct="def as_clauses: pairwise exclusion", function="ConstraintAD.as_clauses")
    n_all = len([s for s in walk_no_nested(f.node) if isinstance(s, ast.Expr) and norm(s) == "lines.append(nodes)"]) + \
        len([s for s in walk_no_nested(f.node) if isinstance(s, ast.Return) and s.value is not None and norm(s.value).endswith("+ [nodes]")])
    col.decide("K4", m, f.node, n_all == 1, "exactly one clause with all members positive (pick one)", "as_clauses must emit exactly one clause containing all members positively",
               construct="def as_clauses: pick-one clause", function="ConstraintAD.as_clauses")
    ps = dtable.extract(f.node, opaque_loops=True)
    triv = [p for p in ps if any(s_ == "self.is_nontrivial()" and not t for s_, t, _ in p.conds)]
    okg = bool(triv) and all(p.end == "return" and p.value == "[]" for p in triv) and any(any(s_ == "self.is_nontrivial()" and t for s_, t, _ in p.conds) for p in ps)
    col.decide("K4", m, f.node, okg, "trivial constraints contribute no clause", "a trivial constraint must return []", construct="def as_clauses: trivial", function="ConstraintAD.as_clauses")
    for cname in ("ClauseConstraint", "TrueConstraint"):
        cc = repo.cls("problog.constraint", cname)
        ff = cc.methods.get("as_clauses")
        if ff is None:
            raise AnalysisError("%s.as_clauses missing" % cname)
        rets = [norm(r.value) for r in walk_no_nested(ff.node) if isinstance(r, ast.Return)]
        col.decide("K4", m, ff.node, rets in (["[self.nodes]"], ["[[self.node]]"], ["[self.nodes]"]) or all("self.node" in r for r in rets), "%s returns its literals unchanged" % cname,
                   "%s.as_clauses must return its literals unchanged; found %s" % (cname, rets), construct="def %s.as_clauses" % cname, function="%s.as_clauses" % cname)
    # K5
    uw = c.methods.get("update_weights")
    s = norm(uw.node)
    sem = uw.params[2]
    wts = uw.params[1]
    m1 = pat.find("%s[V_n] = (V_pos, %s.ad_negate(V_pos, V_neg))" % (wts, sem), uw.node)
    # single-assignment temporaries are read through (a behaviour-preserving `extra_neg = ...` must not matter)
    assigned = {}
    for st in ast.walk(uw.node):
        if isinstance(st, ast.Assign) and len(st.targets) == 1 and isinstance(st.targets[0], ast.Name):
            assigned.setdefault(st.targets[0].id, []).append(st.value)

    def thru(e):
        if isinstance(e, ast.Name) and len(assigned.get(e.id, ())) == 1:
            return assigned[e.id][0]
        return e

    m2 = []
    for _n, b in pat.find("%s[self.extra_node] = (E_c, E_n)" % wts, uw.node):
        cexp, nexp = _n.value.elts[0], thru(_n.value.elts[1])
        if isinstance(cexp, ast.Name) and pat.match(pat.parse_expr("%s.ad_negate(%s, %s.one())" % (sem, cexp.id, sem)), nexp) is not None:
            m2.append((_n, {"V_c": cexp.id}))
    ok5 = False
    if len(m1) == 1 and len(m2) == 1:
        posv = m1[0][1]["V_pos"]
        cv = m2[0][1]["V_c"]
        m3 = pat.find("%s = %s.ad_complement(V_ws, key=ANY)" % (cv, sem), uw.node) or pat.find("%s = %s.ad_complement(V_ws)" % (cv, sem), uw.node)
        if len(m3) == 1:
            ws = m3[0][1]["V_ws"]
            ok5 = bool(pat.find("%s.append(%s)" % (ws, posv), uw.node))
    col.decide("K5", m, uw.node, ok5, "members get (pos, ad_negate(pos, neg)), the extra node (complement, ad_negate(complement, one()))",
               "update_weights must give every member (pos, ad_negate(pos, neg)) and the extra node (complement, ad_negate(complement, one())) with complement = ad_complement(all pos)",
               construct="def update_weights: weight pairs", function="ConstraintAD.update_weights")


def rule_k6(repo, col):
    """the translation memo of _break_cycles is keyed by the node only, but the translation depends on is_evidence (evidence values are substituted only when it is
    False): passes with different is_evidence values must not share one table"""
    f = repo.func("problog.cycles", "_break_cycles")
    m = f.module
    if "is_evidence" not in f.params or "translation" not in f.params:
        raise AnalysisError("_break_cycles: parameters is_evidence / translation not found")
    depends = any(isinstance(n, ast.If) and "is_evidence" in norm(n.test) for n in ast.walk(f.node))
    keyed = any(isinstance(n, ast.Subscript) and norm(n.value) == "translation" and "is_evidence" in norm(n.slice) for n in ast.walk(f.node))
    if not depends or keyed:
        col.ok("K6", m, f.node, "the translation memo %s" % ("is keyed by is_evidence" if keyed else "does not depend on is_evidence"), function="_break_cycles")
        return
    g = repo.func("problog.cycles", "break_cycles")
    ti = f.params.index("translation")
    events = []
    for n in ast.walk(g.node):
        if isinstance(n, ast.Call) and dotted(n.func) == "_break_cycles":
            kws = {k.arg: k.value for k in n.keywords}
            tab = norm(n.args[ti]) if len(n.args) > ti else norm(kws["translation"]) if "translation" in kws else None
            ie_i = f.params.index("is_evidence")
            ie = n.args[ie_i] if len(n.args) > ie_i else kws.get("is_evidence")
            if ie is None:
                flag = False
            elif isinstance(ie, ast.Constant):
                flag = bool(ie.value)
            else:
                raise AnalysisError("break_cycles: is_evidence argument not constant: %s" % norm(ie))
            if tab is None:
                raise AnalysisError("break_cycles: translation argument not found")
            events.append((n.lineno, "call", tab, flag, n))
        elif isinstance(n, ast.Assign) and isinstance(n.targets[0], ast.Name):
            v = n.value
            fresh = (isinstance(v, ast.Call) and dotted(v.func) in ("defaultdict", "dict", "collections.defaultdict")) or isinstance(v, ast.Dict)
            events.append((n.lineno, "fresh" if fresh else "assign", n.targets[0].id, None, n))
    events.sort(key=lambda e_: e_[0])
    calls = [e_ for e_ in events if e_[1] == "call"]
    if len(calls) < 2:
        raise AnalysisError("break_cycles: the query and evidence passes were not found")
    n_pairs = 0
    for i, a in enumerate(calls):
        for b in calls[i + 1:]:
            if a[2] != b[2] or a[3] == b[3]:
                continue
            n_pairs += 1
            between = [e_ for e_ in events if a[0] < e_[0] < b[0] and e_[2] == a[2] and e_[1] in ("fresh", "assign")]
            if any(e_[1] == "assign" for e_ in between):
                raise AnalysisError("break_cycles: table %s is rebound to something that is not a fresh container" % a[2])
            col.decide("K6", g.module, b[4], bool(between), "the %s pass gets a fresh translation table" % ("evidence" if b[3] else "query"),
                       "break_cycles translates the %s nodes (is_evidence=%s) with the table `%s` already filled by the pass with is_evidence=%s: the memo is keyed by the node only, but the "
                       "query pass substitutes propagated evidence values into its nodes, so the evidence node is rebuilt from nodes in which the evidence is already assumed - the "
                       "constraint degenerates (e.g. to TRUE) and the condition is lost" % ("evidence" if b[3] else "query", b[3], a[2], a[3]),
                       construct="break_cycles: translation table shared between is_evidence=%s and is_evidence=%s" % (a[3], b[3]), function="break_cycles")
    col.floor("K6.pass_pairs", n_pairs, 1)


def rule_k7(repo, col):
    """_break_cycles replaces a node by its propagated evidence value only while translating QUERIES (is_evidence False): the evidence nodes themselves must be translated
    structurally, otherwise each evidence root becomes the constant it was observed as and the conditioning is lost"""
    f = repo.func("problog.cycles", "_break_cycles")
    m = f.module
    paths = dtable.extract(f.node, opaque_loops=True)
    n = 0
    bad = []
    for p_ in paths:
        if p_.end != "return" or p_.value is None or "get_evidence_value(" not in p_.value:
            continue
        n += 1
        cd = dict((s_, t_) for s_, t_, _ in p_.conds)
        if cd.get("is_evidence") is not False:
            bad.append(p_)
    if n == 0:
        raise AnalysisError("_break_cycles: no path returns a propagated evidence value")
    col.decide("K7", m, bad[0].stmts[-1] if bad and bad[0].stmts else f.node, not bad, "propagated evidence values are substituted only when is_evidence is false",
               "_break_cycles returns the propagated evidence value of a node (%s) on a path where is_evidence is not known to be false: while the evidence itself is translated this turns "
               "every evidence root into the constant it was observed as - the condition disappears (0.3::a. 0.4::b. e:-a. e:-b. evidence(e). query(a). answers 0.3 instead of 0.517)"
               % (bad[0].value[:60] if bad else ""), construct="_break_cycles: evidence value substituted regardless of is_evidence", function="_break_cycles")


def rule_k8(repo, col):
    """translation memos of the formula transformations (copy_node / copy_node_from / _break_cycles / clarks_completion ...): a table is written under the same key form it is read
    under (an entry stored under abs(index) is handed out for index AND -index)"""
    from .. import memo

    if not memo.key_selftest():
        raise AnalysisError("memo key-agreement rule does not fire on its positive example")
    n_f = 0
    n_bad = 0
    for f in repo.all_functions():
        if f.module.name not in ("problog.formula", "problog.cycles", "problog.cnf_formula", "problog.ddnnf_formula", "problog.dd_formula", "problog.core"):
            continue
        n_f += 1
        for st, tab, rk, wk in memo.key_disagreements(f.node):
            n_bad += 1
            col.fail("K8", f.module, st, "%s looks its memo `%s` up under %s but stores under %s: the translation computed for one literal is then handed out for another (with abs(): the "
                     "negation of a node gets the node's own translation, so q and \\+q become the same circuit)" % (f.qualname, tab, rk, wk),
                     construct="%s: memo %s read under %s, written under %s" % (f.qualname, tab, rk, wk), function=f.qualname)
    col.ok("K8", repo.modules["problog.formula"], repo.modules["problog.formula"].tree, "transformation modules scanned for memo tables read and written under different keys: %d functions, "
           "%d disagreements; positive example of the rule matched" % (n_f, n_bad), construct="transformation modules: memo key agreement scan", function="<module>")
    col.floor("K8.functions_scanned", n_f, 150)


def _is_plain_copy(e, src):
    """`src`, dict(src), src.copy(), copy.copy(src), {k: v for k, v in src.items()} - the same entries, none left out"""
    t = norm(e)
    if t in (src, "dict(%s)" % src, "%s.copy()" % src, "copy.copy(%s)" % src, "copy(%s)" % src, "{**%s}" % src):
        return True
    if isinstance(e, ast.DictComp) and len(e.generators) == 1:
        g = e.generators[0]
        if norm(g.iter) == "%s.items()" % src and isinstance(g.target, ast.Tuple) and len(g.target.elts) == 2:
            k, v = norm(g.target.elts[0]), norm(g.target.elts[1])
            return not g.ifs and norm(e.key) == k and norm(e.value) == v
    return None if not isinstance(e, ast.DictComp) else False


def rule_k9(repo, col):
    """the weights handed to set_weights are the weights get_weights returns: every entry, unchanged (clarks_completion copies them with set_weights(source.get_weights());
    an entry that is dropped because its weight is falsy - 0.0, None, False - becomes a free atom of the CNF with weight (1, 1))"""
    c = repo.cls("problog.formula", "BaseFormula")
    m = c.module
    sw, gw = c.methods.get("set_weights"), c.methods.get("get_weights")
    if sw is None or gw is None or len(sw.params) != 2:
        raise AnalysisError("BaseFormula.set_weights / get_weights not found")
    prm = sw.params[1]
    stores = [st for st in walk_no_nested(sw.node) if isinstance(st, ast.Assign) and len(st.targets) == 1 and isinstance(st.targets[0], ast.Attribute) and norm(st.targets[0].value) == "self"]
    if len(stores) != 1:
        raise AnalysisError("set_weights: one store to an attribute of self expected")
    attr = norm(stores[0].targets[0])
    okc = _is_plain_copy(stores[0].value, prm)
    if okc is None:
        raise AnalysisError("set_weights: stored value not understood: %s" % norm(stores[0].value)[:80])
    col.decide("K9", m, stores[0], okc, "set_weights keeps every entry it is given",
               "set_weights stores %s: entries are filtered or rewritten on the way in - an atom whose weight is 0.0 / None / False has no weight in the CNF any more, counts as a free "
               "atom with weight (1, 1), and the models that make it true carry mass (total model weight 2.0 instead of 1.0)" % norm(stores[0].value)[:80],
               construct="set_weights: stored weights", function="BaseFormula.set_weights")
    rets = [r for r in walk_no_nested(gw.node) if isinstance(r, ast.Return)]
    if len(rets) != 1 or rets[0].value is None:
        raise AnalysisError("get_weights: one return expected")
    okg = _is_plain_copy(rets[0].value, attr)
    if okg is None:
        raise AnalysisError("get_weights: returned value not understood: %s" % norm(rets[0].value)[:80])
    col.decide("K9", m, rets[0], okg, "get_weights hands out every stored entry", "get_weights returns %s instead of the stored table %s" % (norm(rets[0].value)[:80], attr),
               construct="get_weights: returned weights", function="BaseFormula.get_weights")


def rule_k10(repo, col):
    """BaseFormula.evidence_all - what break_cycles iterates to carry the evidence over - reports every evidence entry with the key it is stored under: (name, key) + (value,)
    with value 1 / -1 / 0 for the three labels; the sign of an undetermined entry is what break_cycles re-negates the translated node by"""
    f = repo.func("problog.formula", "BaseFormula.evidence_all")
    m = f.module
    want = {"LABEL_EVIDENCE_POS": 1, "LABEL_EVIDENCE_NEG": -1, "LABEL_EVIDENCE_MAYBE": 0}
    seen = {}
    for c in ast.walk(f.node):
        if not (isinstance(c, ast.ListComp) and len(c.generators) == 1):
            continue
        g = c.generators[0]
        it = norm(g.iter)
        lab = [k for k in want if it == "self.get_names(self.%s)" % k]
        if not lab:
            continue
        lab = lab[0]
        e = c.elt
        okv = None
        if isinstance(g.target, ast.Name) and isinstance(e, ast.BinOp) and isinstance(e.op, ast.Add) and norm(e.left) == g.target.id and isinstance(e.right, ast.Tuple) and len(e.right.elts) == 1 and not g.ifs:
            ok_c, v = const_value(e.right.elts[0])
            okv = ok_c and v == want[lab]
        elif isinstance(g.target, ast.Tuple) and len(g.target.elts) == 2 and isinstance(e, ast.Tuple) and len(e.elts) == 3:
            ok_c, v = const_value(e.elts[2])
            okv = (not g.ifs) and [norm(x) for x in e.elts[:2]] == [norm(x) for x in g.target.elts] and ok_c and v == want[lab]
        else:
            raise AnalysisError("evidence_all: entry shape not understood: %s" % norm(e)[:80])
        seen[lab] = True
        col.decide("K10", m, c, bool(okv), "evidence_all reports the %s entries with their stored key and value %d" % (lab, want[lab]),
                   "evidence_all builds the %s entries as %s: name and key must be reported exactly as get_names stores them, with value %d - break_cycles re-negates the translated node "
                   "by the sign of that key, so an undetermined-evidence atom grounded to a negative literal is otherwise labelled with the positive node in the LogicDAG and the CNF"
                   % (lab, norm(e)[:90], want[lab]), construct="evidence_all: %s entries" % lab, function="BaseFormula.evidence_all")
    if len(seen) != 3:
        raise AnalysisError("evidence_all: the three evidence labels not found (%s)" % sorted(seen))


def run(repo, col):
    col.rule("K1", "clause templates of Clark's completion")
    col.rule("K2", "weights, atoms, constraints and names are carried over")
    col.rule("K3", "_break_cycles structure")
    col.rule("K4", "ConstraintAD.as_clauses: pairwise exclusion + pick one")
    col.rule("K5", "ConstraintAD.update_weights weight pairs")
    rule_k1_k2(repo, col)
    rule_k3(repo, col)
    rule_k3b(repo, col)
    rule_k4_k5(repo, col)
    col.rule("K6", "translation memo not shared between passes it is not keyed for")
    rule_k6(repo, col)
    col.rule("K7", "evidence values are substituted into query translations only")
    rule_k7(repo, col)
    col.rule("K8", "translation memos are written under the key they are read under")
    rule_k8(repo, col)
    col.rule("K9", "set_weights / get_weights carry every entry unchanged")
    rule_k9(repo, col)
    col.rule("K10", "evidence_all reports every entry under its stored key")
    rule_k10(repo, col)
