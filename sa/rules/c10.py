"""C10 (partial) -- d-DNNF loading: labels, weights and constraints are carried over to the literals they belonged to; reader/format agreement."""
import ast
import re

from ..index import AnalysisError, norm, walk_no_nested
from ..astutil import dotted
from .. import dtable

MOD = "problog.ddnnf_formula"

EXPLANATION = (
    "Decides the last clause of C10 (query and evidence labels point to the same literals; atom weights and constraints are carried over) and the "
    "agreement of the .nnf reader with the c2d/dsharp file format; decomposability, determinism, smoothness and model equivalence of what the external "
    "dsharp binary emits are NOT decided (they are properties of that program's output). F1 _load_nnf, as a decision table over the line kinds: an 'L' "
    "line creates the atom abs(literal) with the weight looked up under abs(literal) in cnf.get_weights(), records it in the rename map under "
    "abs(literal), and registers under the current line number the node itself for a positive and its negation for a negative literal; 'A' lines "
    "read their children from field 2 on and 'O' lines from field 3 on (format: `A c i..`, `O j c i..`), both through the line-number map; the line "
    "counter advances exactly once per L/A/O line and not for the header; F2 every name of the CNF is attached, with its own label, to the signed node "
    "of the literal line that carries its key; names whose literal does not occur are attached to TRUE only for key 0 and to FALSE (None) for every other key (evaluated for the keys 0, positive, negative, None), never dropped; "
    "F3 every constraint of the CNF - on every path of the copy loop, whatever its class - is copied through the rename map; F4 the trivial-CNF path of _compile builds the smooth circuit directly: one atom "
    "per CNF atom with the CNF's weight, an OR of (i, -i) per atom, their conjunction, every name with its node and label, every constraint copied; "
    "F5 both paths are reached from _compile on the same cnf (the non-trivial path writes cnf.to_dimacs() and loads with that same cnf)."
    " Added after seed round 6: F6 the compiler wrappers default to smooth=True and pass the smoothing flag on every path that reaches the compiler when smooth holds."
    " Added after seed round 8: F7 a memo kept by a CNF serialiser is reset by every method that writes what it was computed from."
    " Added after seed round 10: F8 TrueConstraint.copy folded for the literals 7 and -7 with rename = {7: 27}: a positive literal becomes exactly the renamed atom, a negative literal stays negative."
)
TECHNIQUE = "static analysis: decision table of the .nnf reader over line kinds (symbolic substitution), carry-over (who-copies-what) rules, sibling agreement of the two compile paths"
LEVEL_TEXT = EXPLANATION


def _field(src):
    """normalise `<line expr>[k]` / `[k:]` at the end of a source text -> ('idx', k) / ('from', k)"""
    m = re.search(r"\[(\d+)\]$", src)
    if m:
        return ("idx", int(m.group(1)))
    m = re.search(r"\[(\d+):\]$", src)
    if m:
        return ("from", int(m.group(1)))
    return None


def rule_load(repo, col):
    f = repo.func(MOD, "_load_nnf")
    m = f.module
    cnf = f.params[1]
    # weights = cnf.get_weights()
    wname = None
    for st in walk_no_nested(f.node):
        if isinstance(st, ast.Assign) and isinstance(st.targets[0], ast.Name) and norm(st.value) == "%s.get_weights()" % cnf:
            wname = st.targets[0].id
    if wname is None:
        raise AnalysisError("_load_nnf: weights = cnf.get_weights() not found")
    # names_inv built from cnf.get_names_with_label(): {node: [(name, label)]}
    inv = None
    for lp in walk_no_nested(f.node):
        if isinstance(lp, ast.For) and norm(lp.iter) == "%s.get_names_with_label()" % cnf and isinstance(lp.target, ast.Tuple) and len(lp.target.elts) == 3:
            nm, nd, lb = [norm(x) for x in lp.target.elts]
            for st in lp.body:
                mm = re.match(r"^(\w+)\[%s\]\.append\(\(%s, %s\)\)$" % (re.escape(nd), re.escape(nm), re.escape(lb)), norm(st))
                if mm:
                    inv = mm.group(1)
                    invnode = st
            if inv is None:
                col.fail("F2", m, lp, "the name index must map each node key to its (name, label) pairs: %s" % [norm(s) for s in lp.body], function="_load_nnf")
                return
    if inv is None:
        raise AnalysisError("_load_nnf: name index over cnf.get_names_with_label() not found")
    col.ok("F2", m, invnode, "names are indexed by node key with their label", function="_load_nnf")
    main = [n for n in ast.walk(f.node) if isinstance(n, ast.For) and any(isinstance(x, ast.If) for x in n.body) and
            any(isinstance(c, ast.Call) and isinstance(c.func, ast.Attribute) and c.func.attr in ("add_atom", "add_and", "add_or") for c in ast.walk(n))]
    main = [n for n in main if not any(n is not o and any(n is x for x in ast.walk(o)) for o in main)]
    if len(main) != 1:
        raise AnalysisError("_load_nnf: line loop not found")
    loop = main[0]
    paths = dtable.extract_block(loop.body, opaque_loops=True)
    kinds = {}
    for p in paths:
        kind = None
        for s_, t, _ in p.conds:
            mm = re.search(r"\[0\] == '(\w+)'$", s_)
            if mm and t:
                kind = mm.group(1)
        kinds.setdefault(kind, []).append(p)
    for k in ("L", "A", "O"):
        if k not in kinds:
            raise AnalysisError("_load_nnf: no branch for '%s' lines" % k)
    # the nnf object
    nnf = None
    for st in walk_no_nested(f.node):
        if isinstance(st, ast.Assign) and isinstance(st.targets[0], ast.Name) and isinstance(st.value, ast.Call) and dotted(st.value.func) == "DDNNF":
            nnf = st.targets[0].id
    if nnf is None:
        raise AnalysisError("_load_nnf: DDNNF() not found")
    counter = None
    l2n = None
    # the rename map is the argument of c.copy(...) in the constraints loop
    rn = None
    for c_ in ast.walk(f.node):
        if isinstance(c_, ast.Call) and isinstance(c_.func, ast.Attribute) and c_.func.attr == "copy" and len(c_.args) == 1 and isinstance(c_.args[0], ast.Name):
            rn = c_.args[0].id
    lit = None
    for p in kinds["L"]:
        atoms = [(a, node) for fn, a, node in p.calls if fn == "%s.add_atom" % nnf]
        if len(atoms) != 1:
            raise AnalysisError("_load_nnf: 'L' branch must create one atom")
        a, node = atoms[0]
        mm = re.match(r"^abs\((.*)\)$", a[0])
        plit = mm.group(1) if mm else None
        okatom = plit is not None and _field(re.sub(r"^int\((.*)\)$", r"\1", plit)) == ("idx", 1)
        okw = len(a) >= 2 and plit is not None and a[1].startswith("%s.get(abs(%s)" % (wname, plit))
        col.decide("F1", m, node, okatom and okw, "an L line creates atom abs(literal) with the CNF weight of abs(literal)",
                   "_load_nnf must create the atom abs(<field 1>) with weight %s.get(abs(<field 1>), ...); found add_atom(%s)" % (wname, ", ".join(a)),
                   construct="L line: add_atom", function="_load_nnf")
        if plit is None:
            return
        lit = plit
    for scen, neg in ((5, False), (-5, True)):
        ps = dtable.compatible(kinds["L"], [(lit, scen)])
        if not ps:
            raise AnalysisError("_load_nnf: no 'L' path for a %s literal" % ("negative" if neg else "positive"))
        for p in ps:
            a, node = [(a, node) for fn, a, node in p.calls if fn == "%s.add_atom" % nnf][0]
            atom_src = "%s.add_atom(%s)" % (nnf, ", ".join(a))
            stores = [(a_, n_) for fn, a_, n_ in p.calls if fn == "<store>"]
            if rn is not None:
                ren = [x for x in stores if x[0][0].startswith("%s[" % rn)]
                okren = len(ren) == 1 and ren[0][0][0] == "%s[abs(%s)]" % (rn, lit) and ren[0][0][1] == atom_src
                col.decide("F3", m, ren[0][1] if ren else node, okren, "the rename map records the new node under abs(literal)",
                           "_load_nnf must record the created (unsigned) node under abs(literal) in the rename map used to copy the constraints; found %s" % [x[0] for x in ren],
                           construct="L line: rename", function="_load_nnf")
            reg = [x for x in stores if re.match(r"^\w+\[\w+\]$", x[0][0]) and x[0][1] in (atom_src, "-" + atom_src)]
            if len(reg) != 1:
                raise AnalysisError("_load_nnf: registration of the literal's node not found")
            target, val = reg[0][0]
            mm = re.match(r"^(\w+)\[(\w+)\]$", target)
            l2n, counter = mm.group(1), mm.group(2)
            col.decide("F1", m, reg[0][1], val.startswith("-") == neg, "a %s literal registers %s" % ("negative" if neg else "positive", "the negated node" if neg else "the node"),
                       "_load_nnf registers %s for a %s literal: the line must stand for the node itself when the literal is positive and for its negation when it is negative"
                       % ("the negated node" if val.startswith("-") else "the node", "negative" if neg else "positive"), construct="L line: sign (literal %s)" % ("< 0" if neg else "> 0"), function="_load_nnf")
            has_names = dict((s_, t) for s_, t, _ in p.conds).get("%s in %s" % (lit, inv))
            loops_ = [a_ for fn, a_, _ in p.calls if fn == "<loop>"]
            if has_names:
                col.decide("F2", m, node, any(re.match(r"^%s\[\w+\]$" % inv, l_[0]) for l_ in loops_), "names registered under the literal's key are visited",
                           "_load_nnf must visit %s[<literal>] when the literal carries names" % inv, construct="L line: names visited (literal %s)" % ("< 0" if neg else "> 0"), function="_load_nnf")
    # the inner name loop: add_name(actual_name, node, label)
    inner = [n for n in ast.walk(loop) if isinstance(n, ast.For) and re.match(r"^%s\[\w+\]$" % inv, norm(n.iter))]
    if len(inner) != 1 or not (isinstance(inner[0].target, ast.Tuple) and len(inner[0].target.elts) == 2):
        raise AnalysisError("_load_nnf: name loop of the L branch not found")
    an, lb = [norm(x) for x in inner[0].target.elts]
    calls = [c for c in ast.walk(inner[0]) if isinstance(c, ast.Call) and norm(c.func) == "%s.add_name" % nnf]
    ok = len(calls) == 1 and [norm(x) for x in calls[0].args] == [an, "node", lb]
    # `node` must be the signed node variable: it is the name stored in the line map
    signed = [st for st in walk_no_nested(loop) if isinstance(st, ast.Assign) and norm(st.targets[0]) == "%s[%s]" % (l2n, counter) and isinstance(st.value, ast.Name)]
    if calls and signed:
        ok = len(calls) == 1 and [norm(x) for x in calls[0].args] == [an, signed[0].value.id, lb]
        # and the loop comes after the sign flip
        flips = [st for st in ast.walk(loop) if isinstance(st, ast.Assign) and norm(st) == "%s = -%s" % (signed[0].value.id, signed[0].value.id)]
        ok = ok and bool(flips) and all(fl.lineno < inner[0].lineno for fl in flips)
    col.decide("F2", m, calls[0] if calls else inner[0], ok, "each name is attached with its own label to the signed node of its literal",
               "_load_nnf must attach every (name, label) of a literal to the SIGNED node of that literal (after the sign flip): add_name(%s, <signed node>, %s); found %s"
               % (an, lb, [norm(c) for c in calls]), construct="L line: add_name", function="_load_nnf")
    # A / O lines
    for kind, meth, start in (("A", "add_and", 2), ("O", "add_or", 3)):
        for p in kinds[kind]:
            cs = [(a, node) for fn, a, node in p.calls if fn == "%s.%s" % (nnf, meth)]
            if len(cs) != 1:
                col.fail("F1", m, loop, "an '%s' line must create one %s node" % (kind, meth), construct="%s line: %s" % (kind, meth), function="_load_nnf")
                continue
            a, node = cs[0]
            src = a[0]
            mm = re.match(r"^(?:list\()?map\(lambda (\w+): (\w+)\[int\(\1\)\], (.*)\)\)?$", src) or re.match(r"^\[(\w+)\[int\((\w+)\)\] for \2 in (.*)\]$", src)
            okc = False
            fld = None
            if mm:
                g = mm.groups()
                mapname = g[1] if src.startswith(("map", "list")) else g[0]
                fld = _field(g[2])
                okc = mapname == l2n and fld == ("from", start)
            else:
                raise AnalysisError("_load_nnf: children expression of '%s' lines not understood: %s" % (kind, src))
            col.decide("F1", m, node, okc, "'%s' lines read their children from field %d on, through the line-number map" % (kind, start),
                       "an '%s' line has the format `%s`: its children start at field %d and are line numbers to be looked up in %s; found %s"
                       % (kind, "A c i1 .. ic" if kind == "A" else "O j c i1 .. ic", start, l2n, src), construct="%s line: children" % kind, function="_load_nnf")
            st = [x for fn, x, _ in p.calls if fn == "<store>" and x[0] == "%s[%s]" % (l2n, counter)]
            col.decide("F1", m, node, len(st) == 1 and st[0][1].startswith("%s.%s(" % (nnf, meth)), "the new node is registered under the current line number",
                       "the node of an '%s' line must be registered under the current line number" % kind, construct="%s line: register" % kind, function="_load_nnf")
    # counter discipline
    for kind, ps in kinds.items():
        for p in ps:
            adv = p.env.get(counter)
            want = kind in ("L", "A", "O")
            ok = (adv is not None and adv.replace(" ", "") in ("(%s)+(1)" % counter, "%s+1" % counter)) if want else adv is None
            col.decide("F1", m, loop, ok, "line counter %s for %s lines" % ("advances once" if want else "does not advance", kind or "header/unknown"),
                       "the line counter must advance exactly once per L/A/O line and not otherwise (children refer to node lines by position); %s line: %s" % (kind or "header/unknown", adv),
                       construct="line counter: %s" % (kind or "other"), function="_load_nnf")
    # leftover names
    left = [n for n in walk_no_nested(f.node) if isinstance(n, ast.For) and norm(n.iter) == inv and n.lineno > loop.lineno]
    if len(left) != 1:
        raise AnalysisError("_load_nnf: loop over the names whose literal does not occur not found")
    lv = norm(left[0].target)
    n_left = 0
    for p in dtable.extract_block(left[0].body, opaque_loops=False) if not any(isinstance(x, ast.For) for x in left[0].body) else []:
        pass
    inner2 = [n for n in ast.walk(left[0]) if isinstance(n, ast.For) and n is not left[0]]
    if len(inner2) != 1 or norm(inner2[0].iter) != "%s[%s]" % (inv, lv):
        raise AnalysisError("_load_nnf: inner loop over the names of an absent literal not found")
    an2, lb2 = [norm(x) for x in inner2[0].target.elts]
    bp = dtable.extract_block(inner2[0].body, opaque_loops=True)
    # scenarios over the key of the absent literal: 0 (the TRUE key), a positive literal, a negative literal, None (the FALSE key)
    for val, what in ((0, "the TRUE key 0"), (3, "a positive literal"), (-3, "a negative literal"), (None, "the FALSE key None")):
        ps = dtable.compatible(bp, [(lv, val)])
        if not ps:
            raise AnalysisError("_load_nnf: no path for an absent literal with key %r" % (val,))
        want = [an2, "0", lb2] if val == 0 else [an2, "None", lb2]
        bad = []
        for p in ps:
            calls2 = [a for fn, a, _ in p.calls if fn == "%s.add_name" % nnf]
            if calls2 != [want]:
                bad.append(calls2)
        n_left += 1
        col.decide("F2", m, inner2[0], not bad, "a name with %s whose literal is absent is attached to %s" % (what, "TRUE (0)" if val == 0 else "FALSE (None)"),
                   "a name with %s whose literal does not occur in the circuit must be attached to %s: only key 0 stands for TRUE, every other absent literal is false in all models; found %s"
                   % (what, "add_name(name, 0, label)" if val == 0 else "add_name(name, None, label)", bad[:1]), construct="absent literal: key %r" % (val,), function="_load_nnf")
    # constraints
    _constraints(col, m, f, cnf, nnf, True)


def _constraints(col, m, f, cnf, nnf, with_rename):
    loops = [n for n in walk_no_nested(f.node) if isinstance(n, ast.For) and norm(n.iter) == "%s.constraints()" % cnf]
    ok = False
    node = f.node
    if len(loops) == 1 and isinstance(loops[0].target, ast.Name):
        c = loops[0].target.id
        node = loops[0]
        calls = [x for x in ast.walk(loops[0]) if isinstance(x, ast.Call) and norm(x.func) == "%s.add_constraint" % nnf]
        # every constraint: no path through the loop body may skip the copy
        bp = dtable.extract_block(loops[0].body, opaque_loops=True)
        skipping = [pth for pth in bp if not any(fn == "%s.add_constraint" % nnf for fn, _, _ in pth.calls) and pth.end in ("fall", "continue", "break")]
        if skipping:
            col.fail("F3", m, loops[0], "%s drops constraints of the CNF under the condition %s: every constraint (AD, true-node, clause constraint) restricts the models and must be copied"
                     % (f.qualname, [c_[0] + ("" if c_[1] else " is false") for c_ in skipping[0].conds]), construct="constraints carried over: all of them", function=f.qualname)
        if len(calls) == 1 and len(calls[0].args) == 1:
            a = calls[0].args[0]
            if isinstance(a, ast.Call) and norm(a.func) == "%s.copy" % c:
                if with_rename:
                    ok = len(a.args) == 1 and isinstance(a.args[0], ast.Name)
                    if ok:
                        rn = a.args[0].id
                        ok = any(isinstance(st, ast.Assign) and re.match(r"^%s\[abs\(" % rn, norm(st.targets[0])) for st in ast.walk(f.node))
                else:
                    ok = not a.args and not a.keywords
    col.decide("F3", m, node, ok, "every constraint of the CNF is copied%s" % (" through the rename map" if with_rename else ""),
               "%s must copy every constraint of the CNF into the circuit%s: for c in %s.constraints(): %s.add_constraint(c.copy(%s))"
               % (f.qualname, " through the rename map filled by the L lines" if with_rename else "", cnf, nnf, "rename" if with_rename else ""),
               construct="constraints carried over", function=f.qualname)


def rule_compile(repo, col):
    f = repo.func(MOD, "_compile")
    m = f.module
    cnf = f.params[0]
    paths = dtable.extract(f.node, opaque_loops=True)
    triv = [p for p in paths if dict((s_, t) for s_, t, _ in p.conds).get("%s.is_trivial()" % cnf) is True]
    non = [p for p in paths if dict((s_, t) for s_, t, _ in p.conds).get("%s.is_trivial()" % cnf) is False and p.end == "return"]
    if not triv or not non:
        raise AnalysisError("_compile: trivial / non-trivial split not found")
    # F5
    for p in non:
        col.decide("F5", m, f.node, p.value is not None and re.match(r"^_load_nnf\(\w+, %s\)$" % cnf, p.value) is not None, "the circuit is loaded against the same cnf",
                   "_compile must return _load_nnf(<nnf file>, %s): labels, weights and constraints are taken from the cnf that was compiled; found %s" % (cnf, p.value),
                   construct="non-trivial path: _load_nnf", function="_compile")
    writes = [n for n in ast.walk(f.node) if isinstance(n, ast.Call) and isinstance(n.func, ast.Attribute) and n.func.attr == "write"]
    col.decide("F5", m, writes[0] if writes else f.node, len(writes) == 1 and [norm(a) for a in writes[0].args] == ["%s.to_dimacs()" % cnf], "the compiler input is the cnf's DIMACS text",
               "_compile must write %s.to_dimacs() (unweighted, complete) as the compiler's input" % cnf, **({} if writes else {"construct": "non-trivial path: write", "function": "_compile"}))
    # F4: trivial path
    tb = None
    for st in f.node.body:
        if isinstance(st, ast.If) and norm(st.test) == "%s.is_trivial()" % cnf:
            tb = st.body
        elif isinstance(st, ast.If) and norm(st.test) == "not %s.is_trivial()" % cnf:
            tb = st.orelse or None
    if tb is None:
        # guard-clause form: statements after an early-returning non-trivial branch are not modelled
        raise AnalysisError("_compile: trivial branch not found as an if-branch")
    scope = f
    names_src = None
    for st in walk_no_nested(f.node):
        if isinstance(st, ast.Assign) and isinstance(st.targets[0], ast.Name) and norm(st.value) == "%s.get_names_with_label()" % cnf:
            names_src = st.targets[0].id
    # inlining bound 1: the trivial branch may be `return helper(cnf, ...)`; the helper's body is then the trivial path
    if len(tb) == 1 and isinstance(tb[0], ast.Return) and isinstance(tb[0].value, ast.Call) and isinstance(tb[0].value.func, ast.Name) and tb[0].value.func.id in m.functions:
        h = m.functions[tb[0].value.func.id]
        argn = [norm(a_) for a_ in tb[0].value.args]
        if cnf not in argn or tb[0].value.keywords or len(argn) != len(h.params):
            raise AnalysisError("_compile: trivial-path helper call not understood: %s" % norm(tb[0].value))
        if names_src is not None and names_src in argn:
            names_src = h.params[argn.index(names_src)]
        cnf = h.params[argn.index(cnf)]
        tb = h.node.body
        scope = h
    nnf = None
    for st in ast.walk(scope.node):
        if isinstance(st, ast.Assign) and isinstance(st.targets[0], ast.Name) and isinstance(st.value, ast.Call) and dotted(st.value.func) == "DDNNF":
            nnf = st.targets[0].id
    if nnf is None:
        raise AnalysisError("_compile: DDNNF() not found")
    rng = "range(1, %s.atomcount + 1)" % cnf
    wname = None
    for st in walk_no_nested(scope.node):
        if isinstance(st, ast.Assign) and isinstance(st.targets[0], ast.Name):
            if norm(st.value) == "%s.get_weights()" % cnf:
                wname = st.targets[0].id
            if norm(st.value) == "%s.get_names_with_label()" % cnf:
                names_src = st.targets[0].id
    atoms_ok = smooth_ok = names_ok = False
    ors = None
    for st in tb:
        if isinstance(st, ast.For) and norm(st.iter) == rng and isinstance(st.target, ast.Name):
            i = st.target.id
            for c in ast.walk(st):
                if isinstance(c, ast.Call) and norm(c.func) == "%s.add_atom" % nnf:
                    atoms_ok = [norm(a) for a in c.args] == [i, "%s.get(%s)" % (wname, i)]
                if isinstance(c, ast.Call) and norm(c.func) == "%s.add_or" % nnf:
                    smooth_ok = [norm(a) for a in c.args] in (["(%s, -%s)" % (i, i)], ["(-%s, %s)" % (i, i)], ["[%s, -%s]" % (i, i)])
                    par = m.parents().get(c)
                    if isinstance(par, ast.Call) and isinstance(par.func, ast.Attribute) and par.func.attr == "append":
                        ors = norm(par.func.value)
        if isinstance(st, ast.For) and isinstance(st.target, ast.Tuple) and len(st.target.elts) == 3 and norm(st.iter) in (names_src, "%s.get_names_with_label()" % cnf):
            t = [norm(x) for x in st.target.elts]
            calls = [c for c in ast.walk(st) if isinstance(c, ast.Call) and norm(c.func) == "%s.add_name" % nnf]
            names_ok = len(calls) == 1 and [norm(a) for a in calls[0].args] == t
    col.decide("F4", m, f.node, atoms_ok, "trivial path: one atom per CNF atom with the CNF's weight",
               "the trivial path must add atom i with weight %s.get(i) for every i in %s" % (wname, rng), construct="trivial path: atoms", function="_compile")
    conj = [c for st in tb for c in ast.walk(st) if isinstance(c, ast.Call) and norm(c.func) == "%s.add_and" % nnf]
    col.decide("F4", m, f.node, smooth_ok and ors is not None and len(conj) == 1 and [norm(a) for a in conj[0].args] == [ors], "trivial path: smooth circuit AND_i (i OR -i)",
               "the trivial path must build AND over all atoms of (i OR -i): every atom must be mentioned so that its weight sum enters the normalisation",
               construct="trivial path: smoothing", function="_compile")
    col.decide("F4", m, f.node, names_ok, "trivial path: every name keeps its node and label", "the trivial path must copy every (name, node, label) of the CNF with add_name(name, node, label)",
               construct="trivial path: names", function="_compile")

    class _F(object):
        pass

    fake = _F()
    fake.node = ast.Module(body=tb, type_ignores=[])
    fake.qualname = "_compile"
    _constraints(col, m, fake, cnf, nnf, False)


def rule_f6(repo, col):
    """the compiler wrappers ask for a smooth circuit: smooth defaults to True and, when it is true, every path hands the compiler its smoothing flag (the evaluator computes
    conditional weights on the assumption that every OR node's children mention the same variables)"""
    m = repo.modules["problog.ddnnf_formula"]
    fns = [n for n in ast.walk(m.tree) if isinstance(n, ast.FunctionDef) and n.name.startswith("_compile_with_")]
    if len(fns) < 2:
        raise AnalysisError("compiler wrappers _compile_with_* not found")
    for fn in fns:
        params = [a.arg for a in fn.args.args]
        if "smooth" not in params:
            raise AnalysisError("%s: no smooth parameter" % fn.name)
        dflt = fn.args.defaults[params.index("smooth") - (len(params) - len(fn.args.defaults))] if params.index("smooth") >= len(params) - len(fn.args.defaults) else None
        col.decide("F6", m, fn, dflt is not None and isinstance(dflt, ast.Constant) and dflt.value is True, "%s: smooth defaults to True" % fn.name,
                   "%s must compile to a smooth circuit by default (smooth=True)" % fn.name, construct="def %s: smooth default" % fn.name, function=fn.name)
        flags = sorted(set(x.value for x in ast.walk(fn) if isinstance(x, ast.Constant) and isinstance(x.value, str) and x.value.startswith("-smooth")))
        if len(flags) != 1:
            raise AnalysisError("%s: smoothing flag of the compiler not found (%s)" % (fn.name, flags))
        paths = dtable.extract(fn, opaque_loops=True)
        seen = 0
        bad = []
        for p_ in dtable.compatible(paths, [("smooth", True)]):
            cmds = [a for f_, a, _ in p_.calls if f_ == "_compile"]
            if not cmds:
                continue
            seen += 1
            if len(cmds[0]) < 2 or repr(flags[0]) not in cmds[0][1].replace('"', "'"):
                others = [s_ for s_, t_, _ in p_.conds if s_ != "smooth" and not s_.startswith("<except")]
                bad.append("under %s" % ", ".join(others) if others else "always")
        if not seen:
            raise AnalysisError("%s: no path reaches _compile with smooth=True" % fn.name)
        col.decide("F6", m, fn, not bad, "%s: smooth=True always passes %s to the compiler" % (fn.name, flags[0]),
                   "%s can call the compiler without %s although smooth is true (%s): the d-DNNF is then not smooth - an OR node whose children mention different variables loses the "
                   "weight of the variables one child does not mention, e.g. P(evidence) of an evidence-only program comes out too large" % (fn.name, flags[0], "; ".join(sorted(set(bad)))),
                   construct="def %s: smoothing flag on smooth=True paths" % fn.name, function=fn.name)


def rule_f7(repo, col):
    """CNF serialisers (to_dimacs, to_lp, _contents) are readers: a text or table they keep for the next call is reset by every method that changes what it was computed from
    (clauses, constraints, atom count, weights, names)"""
    from .. import memo

    c = repo.cls("problog.cnf_formula", "CNF")
    m = c.module
    readers = [nm for nm in ("to_dimacs", "to_lp", "_contents", "from_partial", "is_trivial", "clauses", "clausecount") if nm in c.methods]
    n = 0
    memos = set()
    for attr, rd, wname, w, hit, resets, deps, node in memo.reader_memo_obligations(c.methods, readers, m.parents()):
        n += 1
        memos.add(attr)
        col.decide("F7", m, node, resets, "CNF.%s changes %s and resets the memo %s kept by %s" % (wname, ", ".join(hit), attr, rd.name),
                   "CNF.%s keeps what it computed in self.%s, which depends on self.%s; CNF.%s changes self.%s without resetting it: a CNF that was serialised once and then extended "
                   "(add_clause / add_constraint, e.g. evidence added before a second compilation) is handed to the compiler with the stale text - the circuit no longer has the models "
                   "of the CNF it was compiled from" % (rd.name, attr, ", self.".join(deps), wname, ", self.".join(hit)), construct="CNF.%s: memo %s not reset when %s changes" % (wname, attr, ", ".join(hit)),
                   function="CNF.%s" % wname)
    col.ok("F7", m, c.node, "CNF readers scanned for memos: %d reader methods, %d memo attributes, %d writer obligations" % (len(readers), len(memos), n), construct="class CNF: reader memo scan", function="CNF")
    col.floor("F7.reader_methods", len(readers), 4)


class _NoValue(Exception):
    pass


def _ev(e, node_attr, node_val, rename_name, table, funcs=None, names=None, depth=0):
    """value of an expression over one concrete literal: self.<node> = node_val, <rename> = table (a dict); module-level helper functions with a single return are followed"""
    rec = lambda x: _ev(x, node_attr, node_val, rename_name, table, funcs, names, depth)
    if isinstance(e, ast.Constant):
        return e.value
    if isinstance(e, ast.Attribute) and norm(e) == node_attr:
        return node_val
    if isinstance(e, ast.Name) and names is not None and e.id in names:
        return names[e.id]
    if isinstance(e, ast.Name) and e.id == rename_name and names is None:
        return table
    if isinstance(e, ast.Call) and isinstance(e.func, ast.Name) and funcs and e.func.id in funcs and depth < 2 and not e.keywords:
        h = funcs[e.func.id]
        body = [st for st in h.node.body if not (isinstance(st, ast.Expr) and isinstance(st.value, ast.Constant))]
        if len(body) == 1 and isinstance(body[0], ast.Return) and body[0].value is not None and len(h.params) == len(e.args):
            return _ev(body[0].value, node_attr, node_val, rename_name, table, funcs, dict(zip(h.params, [rec(a) for a in e.args])), depth + 1)
    if isinstance(e, ast.UnaryOp) and isinstance(e.op, ast.USub):
        return -rec(e.operand)
    if isinstance(e, ast.UnaryOp) and isinstance(e.op, ast.Not):
        return not rec(e.operand)
    if isinstance(e, ast.BinOp) and isinstance(e.op, ast.Mult):
        return rec(e.left) * rec(e.right)
    if isinstance(e, ast.IfExp):
        return rec(e.body) if rec(e.test) else rec(e.orelse)
    if isinstance(e, ast.Compare) and len(e.ops) == 1:
        a, b = rec(e.left), rec(e.comparators[0])
        op = e.ops[0]
        if isinstance(op, ast.Is):
            return a is b
        if isinstance(op, ast.IsNot):
            return a is not b
        if isinstance(op, ast.In):
            return a in b
        if isinstance(op, ast.NotIn):
            return a not in b
        if a is None or b is None:
            raise _NoValue(norm(e))
        return {ast.Lt: a < b, ast.LtE: a <= b, ast.Gt: a > b, ast.GtE: a >= b, ast.Eq: a == b, ast.NotEq: a != b}[type(op)]
    if isinstance(e, ast.BoolOp):
        vals = [rec(v) for v in e.values]
        return all(vals) if isinstance(e.op, ast.And) else any(vals)
    if isinstance(e, ast.Call) and isinstance(e.func, ast.Name) and e.func.id == "abs" and len(e.args) == 1:
        return abs(rec(e.args[0]))
    if isinstance(e, ast.Call) and isinstance(e.func, ast.Attribute) and e.func.attr == "get" and len(e.args) in (1, 2):
        d = rec(e.func.value)
        if isinstance(d, dict):
            return d.get(rec(e.args[0]), rec(e.args[1]) if len(e.args) == 2 else None)
    if isinstance(e, ast.Subscript):
        d = rec(e.value)
        if isinstance(d, dict):
            k = rec(e.slice)
            if k not in d:
                raise _NoValue("KeyError %r" % (k,))
            return d[k]
    raise _NoValue(norm(e))


def rule_f8(repo, col):
    """TrueConstraint.copy(rename) - the constraint that carries evidence into the compiled circuit - keeps the polarity of its literal: folded for the literals 7 and -7 with
    rename = {7: 27} (positive literal -> exactly the renamed atom; negative literal -> a negative literal)"""
    c = repo.cls("problog.constraint", "TrueConstraint")
    f = c.methods.get("copy")
    if f is None or len(f.params) != 2:
        raise AnalysisError("TrueConstraint.copy(rename) not found")
    m = c.module
    init = c.methods.get("__init__")
    stores = [st for st in walk_no_nested(init.node) if isinstance(st, ast.Assign) and isinstance(st.targets[0], ast.Attribute) and norm(st.targets[0].value) == "self"
              and isinstance(st.value, ast.Name) and st.value.id == init.params[1]]
    if len(stores) != 1:
        raise AnalysisError("TrueConstraint.__init__: literal field not found")
    attr = norm(stores[0].targets[0])
    rn = f.params[1]
    n = 0
    for lit in (7, -7):
        got = set()
        for p_ in dtable.extract(f.node, opaque_loops=True):
            try:
                if not all(bool(_ev(ast.parse(s_, mode="eval").body, attr, lit, rn, {7: 27}, m.functions)) == t_ for s_, t_, _ in p_.conds):
                    continue
                if p_.end != "return" or p_.value is None:
                    raise AnalysisError("TrueConstraint.copy: a path does not return a constraint")
                r = ast.parse(p_.value, mode="eval").body
                if not (isinstance(r, ast.Call) and norm(r.func) == c.name and len(r.args) == 1):
                    raise AnalysisError("TrueConstraint.copy: returned value not understood: %s" % p_.value[:80])
                got.add(_ev(r.args[0], attr, lit, rn, {7: 27}, m.functions))
            except _NoValue as e:
                raise AnalysisError("TrueConstraint.copy: not foldable for the literal %d: %s" % (lit, e))
        if len(got) != 1:
            raise AnalysisError("TrueConstraint.copy: no single result for the literal %d (%s)" % (lit, sorted(got)))
        g = got.pop()
        ok = g == 27 if lit > 0 else (isinstance(g, int) and g < 0)
        n += 1
        col.decide("F8", m, f.node, ok, "TrueConstraint(%d).copy({7: 27}) keeps the polarity of the literal" % lit,
                   "TrueConstraint(%d).copy({7: 27}) is TrueConstraint(%r): the compiled circuit then carries the evidence constraint on the %s literal - it contradicts every model of "
                   "the circuit it was carried over to" % (lit, g, "opposite" if isinstance(g, int) and (g > 0) != (lit > 0) else "wrong"),
                   construct="TrueConstraint.copy: literal %d" % lit, function="TrueConstraint.copy")
    col.floor("F8.literals", n, 2)


def run(repo, col):
    col.rule("F1", ".nnf reader: decision table over line kinds (atom, sign, children offsets, line counter)")
    col.rule("F2", "names: attached with their label to the signed node; absent literals -> TRUE / FALSE")
    col.rule("F3", "constraints copied (through the rename map)")
    col.rule("F4", "trivial CNF: smooth circuit built directly with weights, names, constraints")
    col.rule("F5", "both paths work on the same cnf")
    rule_load(repo, col)
    rule_compile(repo, col)
    col.rule("F6", "compiler wrappers request a smooth circuit")
    rule_f6(repo, col)
    col.rule("F7", "CNF serialisers keep no stale memo")
    rule_f7(repo, col)
    col.rule("F8", "TrueConstraint.copy keeps the polarity of its literal")
    rule_f8(repo, col)
