"""C31 (partial) -- Bayesian-network export: truth table of the body evaluator, rows of the choice-node tables, index pairing of heads and choice values."""
import ast

from ..index import AnalysisError, norm, walk_no_nested
from ..astutil import dotted, const_value
from .. import dtable
from .. import pattern as pat

BN = "problog.tasks.bayesnet"
CPD = "problog.pgm.cpd"

EXPLANATION = (
    "Decides the table-construction clauses behind C31 in problog/tasks/bayesnet.py and problog/pgm/cpd.py; the equality of the marginals is not "
    "computed. BN1 term_to_bool, as a decision table over the kind of the body term and the truth values of its operands: And is conjunction, Or is "
    "disjunction, Not is negation, an atom is looked up in the assignment; BN2 the choice node of a clause: the row of a parent assignment that makes "
    "the body true is [1 - sum(p_i), p_1, .., p_n] (a head without probability counts 1.0), every other row is [1.0, 0, .., 0], rows are produced "
    "for all 2^k assignments (itertools.product([False, True], repeat=len(parents))) and the domain of the choice variable has n + 1 values; BN3 index "
    "pairing: head number idx (0-based, in the order of the probabilities) is true exactly for choice value idx + 1 (value 0 is 'no head'), in the "
    "clause, annotated-disjunction and fact branches alike; the fact branch uses the table [1 - p, p] with value 1; BN4 OrCPT.to_factor gives a head "
    "[0.0, 1.0] exactly when some (parent, value) pair of the row is one of its registered pairs and [1.0, 0.0] otherwise, over all combinations of "
    "parent values; BN5 formula_to_bn converts every clause of formula.enum_clauses() once, with its enumeration index as the choice node's number."
    " Added after seed round 6: BN6 the parent list of the choice-node Factor is an order-preserving image of the sequence the key tuples are zipped with."
    " Added after seed round 7: BN7 OrCPT.__add__ concatenates the parent-value lists of both operands."
)
TECHNIQUE = "static analysis: decision tables (truth table of the body evaluator, CPT rows), index-pairing patterns, sibling agreement of the three clause branches"
LEVEL_TEXT = EXPLANATION


def rule_bn1(repo, col):
    f = repo.func(BN, "term_to_bool")
    m = f.module
    term, tv = f.params[0], f.params[1]
    paths = dtable.extract(f.node, opaque_loops=True)
    kinds = {"And": ("op1", "op2"), "Or": ("op1", "op2"), "Not": ("child",)}
    for kind, ops in kinds.items():
        import itertools

        for vals in itertools.product([True, False], repeat=len(ops)):
            mapping = [("isinstance(%s, %s)" % (term, k), k == kind) for k in kinds]
            for o, v in zip(ops, vals):
                mapping.append(("term_to_bool(%s.%s, %s)" % (term, o, tv), v))
            ps = dtable.compatible(paths, mapping)
            ps = [p for p in ps if all(dtable.eval_atom(s_, mapping, None) is not None for s_, _, _ in p.conds)]
            if len(ps) != 1:
                raise AnalysisError("term_to_bool: %d decided paths for %s%s" % (len(ps), kind, vals))
            p = ps[0]
            want = {"And": all(vals), "Or": any(vals), "Not": not vals[0]}[kind]
            got = None
            if p.end == "return" and p.value in ("True", "False"):
                got = p.value == "True"
            elif p.end == "return" and p.value is not None:
                okf, v = const_value(ast.parse(dtable_subst_text(p.value, mapping), mode="eval").body)
                got = bool(v) if okf and isinstance(v, bool) else None
            col.decide("BN1", m, f.node, got is want, "%s%s is %s" % (kind, vals, want),
                       "term_to_bool evaluates %s with operand values %s to %s; the body of a clause must be evaluated as a Boolean formula (%s)" % (kind, vals, p.value, want),
                       construct="term_to_bool: %s%s" % (kind, vals), function="term_to_bool")
    # atoms: looked up in the assignment
    mapping = [("isinstance(%s, %s)" % (term, k), False) for k in kinds] + [("%s in %s" % (term, tv), True)]
    ps = dtable.compatible(paths, mapping)
    ps = [p for p in ps if all(dtable.eval_atom(s_, mapping, None) is not None for s_, _, _ in p.conds)]
    col.decide("BN1", m, f.node, len(ps) == 1 and ps[0].end == "return" and ps[0].value == "%s[%s]" % (tv, term), "an atom takes its value from the parent assignment",
               "term_to_bool must return %s[%s] for an atom of the assignment" % (tv, term), construct="term_to_bool: atom", function="term_to_bool")


def dtable_subst_text(src, mapping):
    e = ast.parse(src, mode="eval").body
    e = dtable._Scenario([(norm(ast.parse(k, mode="eval").body), v) for k, v in mapping]).visit(e)
    return norm(e)


def _branch(f, cls_name):
    """statements of the `isinstance(clause, <cls_name>)` branch of clause_to_cpt"""
    clause = f.params[0]
    for n in ast.walk(f.node):
        if isinstance(n, ast.If) and norm(n.test) == "isinstance(%s, %s)" % (clause, cls_name):
            return n.body
    raise AnalysisError("clause_to_cpt: branch for %s not found" % cls_name)


def rule_bn2_bn3(repo, col):
    f = repo.func(BN, "clause_to_cpt")
    m = f.module
    # ---- Clause branch
    body = _branch(f, "Clause")
    wrap = ast.Module(body=body, type_ignores=[])
    m_probs = pat.find("V_probs = [1.0 - sum(V_ph)] + V_ph", wrap)
    col.decide("BN2", m, m_probs[0][0] if m_probs else f.node, len(m_probs) == 1, "row of a true body is [1 - sum(p), p_1..p_n]",
               "the choice row for a true body must be [1.0 - sum(probs_heads)] + probs_heads (value 0 = no head, value i = head i)",
               **({} if m_probs else {"construct": "clause branch: probs", "function": "clause_to_cpt"}))
    if len(m_probs) != 1:
        return
    probs, ph = m_probs[0][1]["V_probs"], m_probs[0][1]["V_ph"]
    # probs_heads filled per head: probability value or 1.0
    fill = [n for n in body if isinstance(n, ast.For) and any(isinstance(c, ast.Call) and norm(c.func) == "%s.append" % ph for c in ast.walk(n))]
    okfill = False
    heads = None
    # the same list written as a comprehension: [h.probability.compute_value() if h.probability is not None else 1.0 for h in heads]
    comp = [st for st in body if isinstance(st, ast.Assign) and norm(st.targets[0]) == ph and isinstance(st.value, ast.ListComp)]
    if not fill and len(comp) == 1 and len(comp[0].value.generators) == 1 and not comp[0].value.generators[0].ifs and isinstance(comp[0].value.generators[0].target, ast.Name):
        gen = comp[0].value.generators[0]
        h = gen.target.id
        heads = norm(gen.iter)
        elt = comp[0].value.elt
        okc = False
        if isinstance(elt, ast.IfExp):
            t_, a_, b_ = norm(elt.test), norm(elt.body), norm(elt.orelse)
            val = "%s.probability.compute_value()" % h
            okc = (t_ == "%s.probability is not None" % h and a_ == val and b_ == "1.0") or (t_ == "%s.probability is None" % h and a_ == "1.0" and b_ == val)
        col.decide("BN2", m, comp[0], okc, "every head contributes its probability (1.0 when it has none), in order",
                   "probs_heads must hold head.probability.compute_value() - or 1.0 for a head without probability - for every head, in the order of the heads; found %s" % norm(elt)[:100],
                   function="clause_to_cpt")
        fill = None
    if fill is not None and len(fill) == 1 and isinstance(fill[0].target, ast.Name):
        heads = norm(fill[0].iter)
        h = fill[0].target.id
        ps = dtable.extract_block(fill[0].body, opaque_loops=True)
        okfill = bool(ps)
        for p in ps:
            cd = dict((s_, t) for s_, t, _ in p.conds)
            app = [a for fn, a, _ in p.calls if fn == "%s.append" % ph]
            none = cd.get("%s.probability is None" % h)
            if none is None:
                okfill = False
            elif none:
                okfill = okfill and app == [["1.0"]]
            else:
                okfill = okfill and app == [["%s.probability.compute_value()" % h]]
    if fill is not None:
      col.decide("BN2", m, fill[0] if fill else f.node, okfill, "every head contributes its probability (1.0 when it has none), in order",
               "probs_heads must receive head.probability.compute_value() - or 1.0 for a head without probability - for every head, in the order of the heads",
               **({} if fill else {"construct": "clause branch: probs_heads", "function": "clause_to_cpt"}))
    rows = [n for n in body if isinstance(n, ast.For) and isinstance(n.iter, ast.Call) and dotted(n.iter.func) == "itertools.product"]
    if len(rows) != 1 or not isinstance(rows[0].target, ast.Name):
        raise AnalysisError("clause_to_cpt: loop over the parent assignments not found")
    it = rows[0].iter
    parents = None
    rep = [k.value for k in it.keywords if k.arg == "repeat"]
    okit = len(it.args) == 1 and norm(it.args[0]) in ("[False, True]", "(False, True)") and len(rep) == 1 and isinstance(rep[0], ast.Call) and dotted(rep[0].func) == "len"
    if okit:
        parents = norm(rep[0].args[0])
    col.decide("BN2", m, it, okit, "all 2^k parent assignments get a row, False before True", "the rows must range over itertools.product([False, True], repeat=len(parents))", function="clause_to_cpt")
    keys = rows[0].target.id
    ps = dtable.extract_block(rows[0].body, opaque_loops=True)
    tvars = set()
    for p in ps:
        for s_, _, _ in p.conds:
            base = s_[:-len(" is None")] if s_.endswith(" is None") else s_
            if base.startswith("term_to_bool("):
                tvars.add(base)
    if len(tvars) != 1:
        raise AnalysisError("clause_to_cpt: truth value of the body not found (%s)" % sorted(tvars))
    tvar = tvars.pop()
    n_rows = 0
    for val, what in ((True, "true"), (False, "false"), (None, "undetermined")):
        cps = dtable.compatible(ps, [(tvar, val)])
        cps = [p for p in cps if all(dtable.eval_atom(s_, [(tvar, val)], None) is not None for s_, _, _ in p.conds)]
        if len(cps) != 1:
            raise AnalysisError("clause_to_cpt: %d row paths for a %s body" % (len(cps), what))
        st = [a for fn, a, _ in cps[0].calls if fn == "<store>" and a[0].endswith("[%s]" % keys)]
        n_rows += 1
        if val is True:
            ok = len(st) == 1 and st[0][1] in (probs, "[1.0 - sum(%s)] + %s" % (ph, ph))
            col.decide("BN2", m, rows[0], ok, "a true body selects the head distribution", "the row of an assignment that makes the body true must be %s; found %s" % (probs, st), construct="row: body true", function="clause_to_cpt")
        else:
            want = "[1.0] + [0.0] * len(%s)" % heads if heads else None
            ok = len(st) == 1 and st[0][1] == want
            col.decide("BN2", m, rows[0], ok, "a %s body puts all mass on 'no head'" % what, "the row of an assignment that does not make the body true must be [1.0] + [0.0] * len(heads); found %s" % st,
                       construct="row: body %s" % what, function="clause_to_cpt")
    # domain sizes and index pairing, all three branches
    for cls_name, offset_heads in (("Clause", True), ("Or", True), ("Term", False)):
        b = ast.Module(body=_branch(f, cls_name), type_ignores=[])
        if offset_heads:
            dom = pat.find("V_pgm.add_var(Variable(V_cn, list(range(len(V_heads) + 1))))", b)
            col.decide("BN3", m, dom[0][0] if dom else f.node, len(dom) == 1, "%s branch: the choice variable has len(heads) + 1 values" % cls_name,
                       "the choice variable of the %s branch must have the values range(len(heads) + 1) (value 0 = no head)" % cls_name,
                       **({} if dom else {"construct": "%s branch: choice domain" % cls_name, "function": "clause_to_cpt"}))
            loops = [n for n in b.body if isinstance(n, ast.For) and isinstance(n.iter, ast.Call) and dotted(n.iter.func) == "enumerate"]
            ok = False
            node = f.node
            headsv = dom[0][1]["V_heads"] if dom else None
            cnv = dom[0][1]["V_cn"] if dom else None
            if not loops and dom:
                # inlining bound 1: the loop may live in a module-level helper that receives the heads and the choice variable
                for st in b.body:
                    if isinstance(st, ast.Expr) and isinstance(st.value, ast.Call) and isinstance(st.value.func, ast.Name) and st.value.func.id in m.functions and not st.value.keywords:
                        h_ = m.functions[st.value.func.id]
                        argn = [norm(a_) for a_ in st.value.args]
                        if headsv in argn and cnv in argn and len(argn) == len(h_.params):
                            loops = [n for n in h_.node.body if isinstance(n, ast.For) and isinstance(n.iter, ast.Call) and dotted(n.iter.func) == "enumerate"]
                            headsv = h_.params[argn.index(headsv)]
                            cnv = h_.params[argn.index(cnv)]
            if len(loops) == 1 and isinstance(loops[0].target, ast.Tuple) and len(loops[0].target.elts) == 2 and dom:
                idx = norm(loops[0].target.elts[0])
                node = loops[0]
                # first index of the enumeration: enumerate(heads) -> 0, enumerate(heads, 1) / enumerate(heads, start=1) -> 1
                start = 0
                extra = list(loops[0].iter.args[1:]) + [k.value for k in loops[0].iter.keywords if k.arg == "start"]
                if extra:
                    okf, start = const_value(extra[0])
                    if not okf or not isinstance(start, int):
                        raise AnalysisError("clause_to_cpt: start of the head enumeration not foldable")
                ok = norm(loops[0].iter.args[0]) == headsv
                pairs = pat.find("V_pgm.add_factor(OrCPT(V_pgm, V_rv, [(%s, E_val)]))" % cnv, loops[0])
                ok = ok and len(pairs) == 1
                if ok:
                    # the value attached to the k-th head (k = 0, 1, 4) must be k + 1
                    ev = ast.parse(pairs[0][1]["E_val"], mode="eval").body
                    for k in (0, 1, 4):
                        okf, v = const_value(ev, {idx: start + k})
                        if not okf:
                            raise AnalysisError("clause_to_cpt: choice value of a head not foldable: %s" % pairs[0][1]["E_val"])
                        ok = ok and v == k + 1
            col.decide("BN3", m, node, ok, "%s branch: head idx is true for choice value idx + 1" % cls_name,
                       "in the %s branch head number idx (as enumerated over the heads, from 0) must be attached to choice value idx + 1: value 0 is 'no head' and the probabilities "
                       "sit at positions 1..n of the row" % cls_name, construct="%s branch: index pairing" % cls_name, function="clause_to_cpt")
            if cls_name == "Or":
                tb = pat.find("V_t = [1.0 - sum(V_ph)] + V_ph", b)
                col.decide("BN2", m, tb[0][0] if tb else f.node, len(tb) == 1, "Or branch: table [1 - sum(p), p_1..p_n]", "the table of an annotated-disjunction fact must be [1.0 - sum(p)] + p",
                           **({} if tb else {"construct": "Or branch: table", "function": "clause_to_cpt"}))
        else:
            tb = pat.find("V_t = [1.0 - V_p, V_p]", b)
            pr = pat.find("V_pgm.add_factor(OrCPT(V_pgm, V_rv, [(V_cn, 1)]))", b)
            dm = pat.find("V_pgm.add_var(Variable(V_cn, [0, 1]))", b)
            col.decide("BN3", m, tb[0][0] if tb else f.node, len(tb) == 1 and len(pr) == 1 and len(dm) >= 1, "Term branch: table [1 - p, p], the fact is true for choice value 1",
                       "a probabilistic fact must get the choice table [1.0 - p, p] over the values [0, 1] and be true for value 1",
                       **({} if tb else {"construct": "Term branch: table", "function": "clause_to_cpt"}))


def rule_bn4(repo, col):
    c = repo.cls(CPD, "OrCPT")
    f = c.methods.get("to_factor")
    if f is None:
        raise AnalysisError("OrCPT.to_factor missing")
    m = f.module
    rows = [n for n in f.node.body if isinstance(n, ast.For) and isinstance(n.iter, ast.Call) and dotted(n.iter.func) == "itertools.product"]
    if len(rows) != 1:
        raise AnalysisError("OrCPT.to_factor: row loop not found")
    lp = rows[0]
    keys = norm(lp.target)
    inner = [n for n in lp.body if isinstance(n, ast.For)]
    flag = None
    okinner = False
    if len(inner) == 1 and isinstance(inner[0].target, ast.Tuple) and len(inner[0].target.elts) == 2:
        pv = "(%s, %s)" % tuple(norm(x) for x in inner[0].target.elts)
        ps = dtable.extract_block(inner[0].body, opaque_loops=True)
        for p in ps:
            cd = dict((s_, t) for s_, t, _ in p.conds)
            hit = cd.get("%s in self.parentvalues" % pv)
            sets = {k: v for k, v in p.env.items() if v in ("True", "False")}
            if hit is True and len(sets) == 1 and list(sets.values()) == ["True"]:
                flag = list(sets)[0]
                okinner = True
            elif hit is False and sets:
                okinner = False
                break
        okinner = okinner and norm(inner[0].iter) == "zip(parents, %s)" % keys
    col.decide("BN4", m, inner[0] if inner else lp, okinner, "a row is 'true' when one of its (parent, value) pairs is registered",
               "OrCPT.to_factor must mark a row true exactly when some (parent, value) pair of the row is in self.parentvalues (and never reset the mark within the row)",
               construct="to_factor: row test", function="OrCPT.to_factor")
    if flag is None:
        return
    inits = [st for st in lp.body if isinstance(st, ast.Assign) and norm(st.targets[0]) == flag and st.lineno < inner[0].lineno]
    okinit = len(inits) == 1 and norm(inits[0].value) == "False"
    ps = dtable.extract_block([st for st in lp.body if st.lineno > inner[0].lineno], opaque_loops=True)
    okrows = len(ps) == 2
    for p in ps:
        cd = dict((s_, t) for s_, t, _ in p.conds)
        st = [a for fn, a, _ in p.calls if fn == "<store>" and a[0].endswith("[%s]" % keys)]
        v = cd.get(flag)
        if v is None or len(st) != 1:
            okrows = False
        else:
            okrows = okrows and st[0][1] == ("[0.0, 1.0]" if v else "[1.0, 0.0]")
    col.decide("BN4", m, lp, okinit and okrows, "true rows are [0.0, 1.0], all others [1.0, 0.0]; the mark starts False for every row",
               "OrCPT.to_factor must start every row unmarked and emit [0.0, 1.0] for a marked row and [1.0, 0.0] otherwise (value order [false, true])",
               construct="to_factor: rows", function="OrCPT.to_factor")


def rule_bn5(repo, col):
    f = repo.func(BN, "formula_to_bn")
    m = f.module
    loops = [n for n in f.node.body if isinstance(n, ast.For) and isinstance(n.iter, ast.Call) and dotted(n.iter.func) == "enumerate"]
    ok = False
    node = f.node
    if len(loops) == 1 and isinstance(loops[0].target, ast.Tuple) and len(loops[0].target.elts) == 2:
        node = loops[0]
        idx, cl = [norm(x) for x in loops[0].target.elts]
        src = norm(loops[0].iter.args[0])
        calls = [c for c in ast.walk(loops[0]) if isinstance(c, ast.Call) and dotted(c.func) == "clause_to_cpt"]
        jumps = [x for x in ast.walk(loops[0]) if isinstance(x, (ast.Continue, ast.Break, ast.Return))]
        ok = src == "%s.enum_clauses()" % f.params[0] and len(calls) == 1 and [norm(a) for a in calls[0].args][:2] == [cl, idx] and not jumps \
            and any(st is not None and isinstance(st, ast.Expr) and st.value is calls[0] for st in loops[0].body)
    col.decide("BN5", m, node, ok, "every clause of the ground program is converted once, numbered by its position",
               "formula_to_bn must call clause_to_cpt(clause, idx, bn) for every (idx, clause) of enumerate(formula.enum_clauses()), unconditionally", construct="formula_to_bn: clause loop", function="formula_to_bn")


def rule_bn6(repo, col):
    """clause branch: the parent list handed to the choice-node Factor is the order-preserving image of the sequence the row keys are enumerated over
    (column i of a key tuple is the truth value of parent i)"""
    f = repo.func(BN, "clause_to_cpt")
    m = f.module
    body = _branch(f, "Clause")
    wrap = ast.Module(body=body, type_ignores=[])
    # the sequence the key tuples are zipped with
    zips = [c for c in ast.walk(wrap) if isinstance(c, ast.Call) and dotted(c.func) == "zip" and len(c.args) == 2]
    prods = [c for c in ast.walk(wrap) if isinstance(c, ast.Call) and dotted(c.func) in ("itertools.product", "product")]
    if len(prods) != 1:
        raise AnalysisError("clause_to_cpt: enumeration of the parent truth values not found")
    keyvar = None
    for n in ast.walk(wrap):
        if isinstance(n, ast.For) and n.iter is prods[0] and isinstance(n.target, ast.Name):
            keyvar = n.target.id
    seq = [norm(z.args[0]) for z in zips if keyvar is not None and norm(z.args[1]) == keyvar] + [norm(z.args[1]) for z in zips if keyvar is not None and norm(z.args[0]) == keyvar]
    if len(set(seq)) != 1:
        raise AnalysisError("clause_to_cpt: the sequence paired with the key tuples was not found")
    S = seq[0]
    facs = [c for c in ast.walk(wrap) if isinstance(c, ast.Call) and dotted(c.func) == "Factor" and len(c.args) >= 4]
    if len(facs) != 1:
        raise AnalysisError("clause_to_cpt: Factor(...) of the choice node not found")
    parg = facs[0].args[2]
    e = parg
    if isinstance(parg, ast.Name):
        defs = [st.value for st in body if isinstance(st, ast.Assign) and any(isinstance(t_, ast.Name) and t_.id == parg.id for t_ in st.targets)]
        if len(defs) != 1:
            raise AnalysisError("clause_to_cpt: definition of %s not found" % parg.id)
        e = defs[0]

    def order(e_):
        """'same' when e_ lists an image of S element by element in S's order, 'permuted' when it provably reorders / deduplicates, None when unknown"""
        if norm(e_) == S:
            return "same"
        if isinstance(e_, ast.ListComp) and len(e_.generators) == 1 and not e_.generators[0].ifs:
            return order(e_.generators[0].iter)
        if isinstance(e_, ast.Call) and dotted(e_.func) in ("list", "tuple") and len(e_.args) == 1:
            return order(e_.args[0])
        if isinstance(e_, ast.GeneratorExp) and len(e_.generators) == 1 and not e_.generators[0].ifs:
            return order(e_.generators[0].iter)
        if isinstance(e_, ast.Call) and dotted(e_.func) == "map" and len(e_.args) == 2:
            return order(e_.args[1])
        if isinstance(e_, ast.Call) and dotted(e_.func) in ("sorted", "reversed", "set", "frozenset") and e_.args:
            return "permuted" if order(e_.args[0]) is not None else None
        if isinstance(e_, ast.Subscript) and isinstance(e_.slice, ast.Slice) and e_.slice.step is not None and norm(e_.slice.step) == "-1":
            return "permuted" if order(e_.value) is not None else None
        return None

    o = order(e)
    if o is None:
        raise AnalysisError("clause_to_cpt: parent list %s is not recognisably derived from %s" % (norm(e)[:60], S))
    col.decide("BN6", m, facs[0], o == "same", "the choice node lists its parents in the order of the key columns",
               "the choice-node Factor declares its parents as %s, a reordering of %s, while row keys are tuples over %s in its own order: column i of the table then belongs to another "
               "parent than the i-th declared one (body b, \\+a: the row for b true / a false is read as a true / b false), so the exported network has different marginals"
               % (norm(e)[:60], S, S), construct="clause_to_cpt: parent list reordered against the key columns", function="clause_to_cpt")


def rule_bn7(repo, col):
    """OrCPT.__add__ (how PGM.add_factor merges the CPDs of one head): the (parent, value) pairs of both operands are concatenated, none is dropped - one choice node can make
    an atom true through several of its values"""
    c = repo.cls("problog.pgm.cpd", "OrCPT")
    f = c.methods.get("__add__")
    if f is None:
        raise AnalysisError("OrCPT.__add__ missing")
    m = f.module
    other = f.params[1]
    paths = dtable.extract(f.node, opaque_loops=True)
    rets = [p_.value for p_ in paths if p_.end == "return" and p_.value is not None]
    if len(rets) != 1:
        raise AnalysisError("OrCPT.__add__: single return expected")
    e = ast.parse(rets[0], mode="eval").body
    if not (isinstance(e, ast.Call) and dotted(e.func) == "OrCPT" and len(e.args) >= 3):
        raise AnalysisError("OrCPT.__add__: returned value not understood: %s" % rets[0][:80])
    pv = e.args[2]
    while isinstance(pv, ast.Call) and dotted(pv.func) in ("list", "tuple") and len(pv.args) == 1:
        pv = pv.args[0]
    concat = isinstance(pv, ast.BinOp) and isinstance(pv.op, ast.Add) and {norm(pv.left), norm(pv.right)} == {"self.parentvalues", "%s.parentvalues" % other}
    lossy = any(isinstance(x, ast.Call) and dotted(x.func) in ("dict", "OrderedDict", "set", "frozenset", "collections.OrderedDict") for x in ast.walk(pv)) or isinstance(pv, (ast.DictComp, ast.SetComp))
    if not concat and not lossy:
        raise AnalysisError("OrCPT.__add__: merged parent values not understood: %s" % norm(pv)[:80])
    col.decide("BN7", m, f.node, concat, "OrCPT.__add__ concatenates the (parent, value) pairs of both operands",
               "OrCPT.__add__ merges the parent values through %s: pairs with the same parent collapse into one, so an atom that a choice node makes true through two values (0.3::a; 0.4::a; "
               "0.2::d :- b) keeps only the last pair and the exported network gives P(a) = 0.20 instead of 0.35" % norm(pv)[:60],
               construct="OrCPT.__add__: parent values de-duplicated", function="OrCPT.__add__")


def run(repo, col):
    col.rule("BN1", "truth table of term_to_bool")
    col.rule("BN2", "rows of the choice-node table")
    col.rule("BN3", "index pairing of heads and choice values; domain sizes")
    col.rule("BN4", "OrCPT.to_factor rows")
    col.rule("BN5", "every clause converted once")
    rule_bn1(repo, col)
    rule_bn2_bn3(repo, col)
    rule_bn4(repo, col)
    rule_bn5(repo, col)
    col.rule("BN6", "parents declared in the order of the key columns")
    rule_bn6(repo, col)
    col.rule("BN7", "merging the CPDs of one head keeps every (parent, value) pair")
    rule_bn7(repo, col)
