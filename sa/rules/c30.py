"""C30 (partial) -- invalid probabilities are rejected: bounds tests dominate every accepted value."""
import ast

from ..index import AnalysisError, ClassInfo, norm, walk_no_nested
from ..astutil import dotted, const_value, is_self_call, single_return_expr
from .. import cfg as cfgmod
from ..excflow import ExcFlow

EXPLANATION = (
    "Decides: V1 in SemiringProbability.value and SemiringLogProbability.value every return is reached only through the true edge of a two-sided "
    "bounds test lo <= float(a) <= hi with lo ~ 0 and hi ~ 1 (tolerance 1e-6), and a path that fails the test raises InvalidValue (CFG must-facts); "
    "V2 in ConstraintAD.update_weights the weight of the extra node is assigned only after semiring.in_domain(complement) held, the other edge "
    "raising InvalidValue, and the complement is computed by ad_complement over the positive weights of all member nodes; V3 "
    "SemiringLogProbability.negate raises InvalidValue outside the domain before computing; the in_domain predicates of both semirings are upper "
    "bounds at 1 (0 in log space); V4 BaseFormula.extract_weights routes every weight that is not a neutral/True/False marker through "
    "pos_value/neg_value, and the probability semirings inherit pos_value/neg_value that go through value(); V5 InvalidValue derives from "
    "ProbLogError; V7 the operations on the value path of that check (plus, negate, ad_complement as resolved through the class hierarchy for the probability and log-probability semirings) do not clamp (max/min/abs/round...): a clamp maps an out-of-range sum back into the domain; V6 coverage of the sum check: some validator on the compile or grounding path must range over the complete head list of an "
    "annotated disjunction and be able to raise InvalidValue. Probabilities given as non-numeric terms and API-supplied float weights are not decided."
    " Added after seed round 8: V8 ad_complement has no exit from its summing loop."
)
TECHNIQUE = "static analysis: CFG dominance of bounds tests (must-facts), routing/who-validates rules"
LEVEL_TEXT = EXPLANATION

EV = "problog.evaluator"
TOL = 1e-6


def _bounds_fact(src, var, env=None):
    """fact source `L <= var <= U` -> (L, U) folded, else None"""
    try:
        e = ast.parse(src, mode="eval").body
    except SyntaxError:
        return None
    if isinstance(e, ast.Compare) and len(e.ops) == 2 and isinstance(e.comparators[0], ast.Name) and e.comparators[0].id == var:
        if all(isinstance(o, (ast.Lt, ast.LtE)) for o in e.ops):
            okl, lo = const_value(e.left, env)
            oku, hi = const_value(e.comparators[1], env)
            if okl and oku:
                return lo, hi
    return None


def rule_v1(repo, col):
    ef = ExcFlow(repo)
    inv = repo.cls("problog.errors", "InvalidValue")
    for cname in ("SemiringProbability", "SemiringLogProbability"):
        c = repo.cls(EV, cname)
        f = c.methods.get("value")
        if f is None:
            col.fail("V1", EV, c.node, "%s does not define value(): external probabilities are no longer range-checked by this semiring" % cname,
                     construct="class %s: value" % cname, function=cname)
            continue
        m = f.module
        # v = float(a)
        var = None
        for st in walk_no_nested(f.node):
            if isinstance(st, ast.Assign) and isinstance(st.targets[0], ast.Name) and isinstance(st.value, ast.Call) and dotted(st.value.func) == "float" \
                    and norm(st.value.args[0]) == f.params[1]:
                var = st.targets[0].id
        if var is None:
            raise AnalysisError("%s.value: v = float(a) not found" % cname)
        g = cfgmod.build(f.node)
        facts = cfgmod.available_facts(g)
        menv = dict(m.module_constants())
        for n_ in ast.walk(f.node):  # a local of the same name shadows the module constant
            if isinstance(n_, ast.Name) and isinstance(n_.ctx, ast.Store):
                menv.pop(n_.id, None)
        for a_ in f.params:
            menv.pop(a_, None)
        nret = 0
        for node in g.stmt_nodes():
            if node.kind == "stmt" and isinstance(node.ast, ast.Return) and node.id in facts and facts[node.id] is not None:
                nret += 1
                ok = False
                seen = []
                for src, truth in facts[node.id]:
                    b = _bounds_fact(src, var, menv)
                    if b is not None and truth:
                        seen.append(b)
                        lo, hi = b
                        if lo >= -TOL and hi <= 1.0 + TOL:
                            ok = True
                col.decide("V1", m, node.ast, ok, "%s.value returns only inside a [0,1] bounds test on %s" % (cname, var),
                           "%s.value returns a value on a path where no test 0 <= %s <= 1 (tolerance %g) is established (bounds tests on this path: %s): "
                           "an out-of-range probability annotation is accepted" % (cname, var, TOL, seen or "none"))
        rs = [r for r in walk_no_nested(f.node) if isinstance(r, ast.Raise)]
        okr = any(ef.exc_class_of(m, r.exc) is inv for r in rs)
        col.decide("V1", m, f.node, okr and nret >= 1, "%s.value raises InvalidValue outside the range" % cname,
                   "%s.value never raises InvalidValue: out-of-range annotations cannot be rejected" % cname,
                   construct="def %s.value: raise InvalidValue" % cname, function="%s.value" % cname)
        # falling off the end returns None (accepted silently downstream)
        if any(not (p.kind == "stmt" and isinstance(p.ast, ast.Return)) for p, _ in g.exit.pred):
            col.fail("V1", m, f.node, "%s.value can fall off its end and return None instead of raising InvalidValue" % cname,
                     construct="def %s.value: implicit return" % cname, function="%s.value" % cname)


def rule_v2(repo, col):
    f = repo.func("problog.constraint", "ConstraintAD.update_weights")
    m = f.module
    ef = ExcFlow(repo)
    inv = repo.cls("problog.errors", "InvalidValue")
    g = cfgmod.build(f.node)
    facts = cfgmod.available_facts(g)
    target = None
    for node in g.stmt_nodes():
        if node.kind == "stmt" and isinstance(node.ast, ast.Assign) and isinstance(node.ast.targets[0], ast.Subscript) \
                and norm(node.ast.targets[0].slice) == "self.extra_node":
            target = node
    if target is None:
        raise AnalysisError("ConstraintAD.update_weights: assignment of the extra node's weight not found")
    st = facts.get(target.id) or frozenset()
    semiring = f.params[2]
    dom = [(s, t) for s, t in st if s.startswith("%s.in_domain(" % semiring)]
    okd = any(t for _, t in dom)
    col.decide("V2", m, target.ast, okd, "extra-node weight assigned only after in_domain(complement) held",
               "the weight of the annotated disjunction's extra node is assigned on a path where semiring.in_domain(complement) was not established: "
               "an AD whose probabilities sum to more than 1 is evaluated instead of raising InvalidValue")
    if okd:
        arg = dom[0][0][len("%s.in_domain(" % semiring):-1]
        v = target.ast.value
        okv = isinstance(v, ast.Tuple) and norm(v.elts[0]) == arg
        col.decide("V2", m, target.ast, okv, "the checked value is the stored positive weight",
                   "in_domain is checked on %s but %s is stored as the extra node's positive weight" % (arg, norm(v.elts[0]) if isinstance(v, ast.Tuple) else norm(v)),
                   construct="weights[self.extra_node]: stored vs checked value")
        # complement = semiring.ad_complement(ws, ...) with ws collecting pos of every member node
        comp = None
        for n in walk_no_nested(f.node):
            if isinstance(n, ast.Assign) and norm(n.targets[0]) == arg and isinstance(n.value, ast.Call) and dotted(n.value.func) == "%s.ad_complement" % semiring:
                comp = n
        okc = comp is not None
        if okc:
            ws = norm(comp.value.args[0])
            loop = [l for l in walk_no_nested(f.node) if isinstance(l, ast.For) and norm(l.iter) == "self.nodes"]
            okc = bool(loop) and any(isinstance(s, ast.Expr) and norm(s.value).startswith("%s.append(pos)" % ws) for s in loop[0].body) \
                and any(isinstance(s, ast.Assign) and norm(s.targets[0]) == "(pos, neg)" for s in loop[0].body)
        col.decide("V2", m, comp if comp is not None else f.node, okc, "complement is ad_complement of the positive weights of all member nodes",
                   "the complement must be semiring.ad_complement over the positive weights of every node of the group",
                   **({} if comp is not None else {"construct": "def update_weights: complement", "function": "ConstraintAD.update_weights"}))
    # false edge raises InvalidValue
    rs = [r for r in walk_no_nested(f.node) if isinstance(r, ast.Raise)]
    okr = bool(rs) and all(ef.exc_class_of(m, r.exc) is inv for r in rs)
    col.decide("V2", m, f.node, okr, "update_weights raises InvalidValue", "update_weights must raise InvalidValue when the sum exceeds the domain",
               construct="def update_weights: raise InvalidValue", function="ConstraintAD.update_weights")
    # guard: applies to every non-trivial constraint; is_nontrivial = more than one node
    c = repo.cls("problog.constraint", "ConstraintAD")
    nt = repo.find_method(c, "is_nontrivial")
    it = c.methods.get("is_true")
    if nt is None or it is None:
        raise AnalysisError("ConstraintAD.is_nontrivial/is_true missing")
    e = single_return_expr(it)
    col.decide("V2", m, it.node, e is not None and norm(e) in ("len(self.nodes) <= 1", "len(self.nodes) < 2"), "a constraint is trivial only with at most one member",
               "ConstraintAD.is_true must be len(self.nodes) <= 1: otherwise multi-head groups skip weight validation", construct="def is_true", function="ConstraintAD.is_true")


def _upper_bound_only(e, var, bound):
    """e is `var <= c` (c ~ bound) or `lo <= var <= c`"""
    if isinstance(e, ast.Compare) and all(isinstance(o, (ast.Lt, ast.LtE)) for o in e.ops):
        names = [e.left] + list(e.comparators)
        if isinstance(names[-2], ast.Name) and names[-2].id == var:
            okc, c = const_value(names[-1])
            return okc and abs(c - bound) <= TOL
    return False


def rule_v3(repo, col):
    L = repo.cls(EV, "SemiringLogProbability")
    P = repo.cls(EV, "SemiringProbability")
    ef = ExcFlow(repo)
    inv = repo.cls("problog.errors", "InvalidValue")
    f = L.methods.get("negate")
    if f is not None:
        m = f.module
        a = f.params[1]
        g = cfgmod.build(f.node)
        facts = cfgmod.available_facts(g)
        for node in g.stmt_nodes():
            if node.kind == "stmt" and isinstance(node.ast, ast.Return) and facts.get(node.id) is not None:
                ok = ("self.in_domain(%s)" % a, True) in facts[node.id]
                col.decide("V3", m, node.ast, ok, "log negate computes only for values in the domain",
                           "SemiringLogProbability.negate returns without having checked in_domain(%s): log(1 - exp(a)) of a value above 0 is a math domain error or a wrong weight" % a)
        rs = [r for r in walk_no_nested(f.node) if isinstance(r, ast.Raise)]
        col.decide("V3", m, f.node, bool(rs) and all(ef.exc_class_of(m, r.exc) is inv for r in rs), "negate raises InvalidValue outside the domain",
                   "SemiringLogProbability.negate must raise InvalidValue outside the domain", construct="def negate: raise InvalidValue", function="SemiringLogProbability.negate")
    for c, bound in ((P, 1.0), (L, 0.0)):
        d = c.methods.get("in_domain")
        if d is None:
            col.fail("V3", EV, c.node, "%s does not define in_domain: the inherited default accepts every value, so AD sums above 1 pass" % c.name,
                     construct="class %s: in_domain" % c.name, function=c.name)
            continue
        e = single_return_expr(d)
        if e is None:
            raise AnalysisError("%s.in_domain: single return expected" % c.name)
        col.decide("V3", d.module, d.node.body[-1], _upper_bound_only(e, d.params[1], bound), "%s.in_domain bounds values above by %g" % (c.name, bound),
                   "%s.in_domain must bound the internal value above by %g (tolerance %g); found %s" % (c.name, bound, TOL, norm(e)))


def rule_v4(repo, col):
    f = repo.func("problog.formula", "BaseFormula.extract_weights")
    m = f.module
    sem = f.params[1]
    n = 0
    for st in walk_no_nested(f.node):
        if isinstance(st, ast.Assign) and isinstance(st.targets[0], ast.Subscript) and norm(st.targets[0].value) == "result":
            n += 1
            v = st.value
            s = norm(v)
            ok = False
            if s == "(%s.one(), %s.one())" % (sem, sem):
                ok = True
            elif isinstance(v, ast.Call) and dotted(v.func) in ("%s.true" % sem, "%s.false" % sem):
                ok = True
            elif isinstance(v, ast.Tuple) and len(v.elts) == 2 and all(isinstance(x, ast.Call) for x in v.elts):
                fs = sorted(dotted(x.func) for x in v.elts)
                ok = fs == ["%s.neg_value" % sem, "%s.pos_value" % sem] and all(norm(x.args[0]) == "w" for x in v.elts)
            col.decide("V4", m, st, ok, "weight goes through the semiring's value conversion or is a marker",
                       "extract_weights stores %s without passing the program weight through semiring.pos_value/neg_value: the range check of value() is bypassed" % s)
    if n < 10:
        raise AnalysisError("extract_weights: only %d result assignments found" % n)
    base = repo.cls(EV, "Semiring")
    for cname in ("SemiringProbability", "SemiringLogProbability"):
        c = repo.cls(EV, cname)
        for meth, inner in (("pos_value", None), ("neg_value", "negate")):
            mm = repo.find_method(c, meth)
            if mm is None:
                raise AnalysisError("%s.%s not resolvable" % (cname, meth))
            e = single_return_expr(mm)
            a = mm.params[1]
            if meth == "pos_value":
                ok = e is not None and norm(e) == "self.value(%s)" % a
            else:
                ok = e is not None and norm(e) == "self.negate(self.value(%s))" % a
            col.decide("V4", mm.module, mm.node, ok, "%s.%s (resolved to %s) converts through value()" % (cname, meth, mm.qualname),
                       "%s.%s resolves to %s, which does not go through value(): the bounds test is bypassed (%s)" % (cname, meth, mm.qualname, norm(e) if e is not None else "?"),
                       construct="%s.%s -> %s" % (cname, meth, mm.qualname), function=mm.qualname)


def rule_v5(repo, col):
    inv = repo.cls("problog.errors", "InvalidValue")
    col.decide("V5", inv.module, inv.node, repo.is_subclass(inv, "problog.errors", "ProbLogError"), "InvalidValue is a ProbLogError",
               "InvalidValue no longer derives from ProbLogError", construct="class InvalidValue", function="InvalidValue")


def rule_v6(repo, col):
    """some validator ranging over the COMPLETE head list of an annotated disjunction can raise InvalidValue"""
    ef = ExcFlow(repo)
    inv = repo.cls("problog.errors", "InvalidValue")
    mods = ["problog.clausedb", "problog.program", "problog.parser", "problog.engine", "problog.engine_stack", "problog.formula", "problog.logic", "problog.constraint"]
    validators = []
    scanned = 0
    for mn in mods:
        m = repo.module(mn)
        funcs = list(m.functions.values())
        for c in m.classes.values():
            funcs.extend(c.methods.values())
        for f in funcs:
            scanned += 1
            ranges_over_heads = False
            for n in walk_no_nested(f.node):
                it = None
                if isinstance(n, ast.For):
                    it = n.iter
                elif isinstance(n, ast.comprehension):
                    it = n.iter
                elif isinstance(n, ast.Call) and dotted(n.func) == "sum" and n.args:
                    it = n.args[0]
                if it is None:
                    continue
                s = norm(it)
                if s.endswith(".heads") or s in ("heads", "new_heads") or "enumerate(struct.heads)" in s or "enumerate(heads)" in s:
                    ranges_over_heads = True
            if not ranges_over_heads:
                continue
            mr = ef.may_raise(f)
            if inv.fullname in mr:
                validators.append(f)
    col.count("V6.functions_scanned", scanned)
    cad = repo.func("problog.constraint", "ConstraintAD.update_weights")
    loop = [l for l in walk_no_nested(cad.node) if isinstance(l, ast.For) and norm(l.iter) == "self.nodes"]
    if not loop:
        raise AnalysisError("ConstraintAD.update_weights: loop over self.nodes not found")
    if validators:
        col.ok("V6", validators[0].module, validators[0].node, "%s ranges over the complete head list and can raise InvalidValue" % validators[0].qualname,
               construct="validator over complete AD head list", function=validators[0].qualname)
    else:
        col.fail("V6", cad.module, loop[0], "the only validator of annotated-disjunction sums, ConstraintAD.update_weights, ranges over self.nodes - the heads that happened to be "
                 "grounded - and is skipped when fewer than two were grounded; no function on the compile/grounding path ranges over the complete head list and can raise "
                 "InvalidValue: '0.7::a; 0.7::b. query(a).' answers a: 0.7",
                 construct="for n in self.nodes (only validator of AD sums)", function="ConstraintAD.update_weights")


CLAMPS = ("max", "min", "abs", "round", "math.fabs", "math.floor", "math.ceil", "numpy.clip", "np.clip")


def rule_v7(repo, col):
    """no clamping on the value path of the annotated-disjunction sum check: plus -> negate / ad_complement -> in_domain"""
    from ..index import ClassInfo

    n = 0
    for cname in ("SemiringProbability", "SemiringLogProbability"):
        c = repo.cls(EV, cname)
        for meth in ("plus", "negate", "ad_complement"):
            f = None
            for k in repo.mro(c):
                if isinstance(k, ClassInfo) and meth in k.methods:
                    f = k.methods[meth]
                    break
            if f is None:
                raise AnalysisError("%s.%s not found in the class hierarchy" % (cname, meth))
            n += 1
            bad = [x for x in walk_no_nested(f.node) if isinstance(x, ast.Call) and dotted(x.func) in CLAMPS]
            col.decide("V7", f.module, bad[0] if bad else f.node, not bad, "%s.%s (as used by %s) does not clamp its result" % (f.cls.name if f.cls else "?", meth, cname),
                       "%s (used by %s on the path sum of the heads -> complement -> in_domain) clamps its result with %s: an annotated disjunction whose probabilities sum to more than 1 "
                       "then yields a complement inside the domain and is accepted instead of raising InvalidValue" % (f.qualname, cname, norm(bad[0])[:60] if bad else ""),
                       construct="%s.%s for %s: clamp" % (f.cls.name if f.cls else "?", meth, cname), function=f.qualname)
    col.floor("V7.value_path_methods", n, 6)


def rule_v8(repo, col):
    """ad_complement of every semiring sums ALL head weights before it negates the sum: no exit from the summing loop (a prefix that already reaches one would hide a total
    above one from the in_domain check that follows)"""
    from ..index import ClassInfo
    base = repo.cls("problog.evaluator", "Semiring")
    n = 0
    for c in sorted(repo.all_classes(), key=lambda c_: (c_.module.name, c_.name)):
        if ".test" in c.module.name or not any(k is base for k in repo.mro(c) if isinstance(k, ClassInfo)):
            continue
        f = c.methods.get("ad_complement")
        if f is None:
            continue
        n += 1
        loops = [lp for lp in walk_no_nested(f.node) if isinstance(lp, (ast.For, ast.While))]
        exits = [x for lp in loops for x in ast.walk(lp) if isinstance(x, (ast.Return, ast.Break))]
        col.decide("V8", f.module, exits[0] if exits else f.node, not exits, "%s.ad_complement sums every head weight" % c.name,
                   "%s.ad_complement leaves its summing loop early (%s): the remaining head weights are neither added nor checked, so an annotated disjunction whose heads sum to more than "
                   "one is accepted as soon as a prefix of them sums to exactly one (0.5::h1; 0.5::h2; 0.5::h3.)" % (c.name, norm(exits[0])[:50] if exits else ""),
                   construct="%s.ad_complement: early exit from the sum" % c.name, function="%s.ad_complement" % c.name)
    col.floor("V8.ad_complement_implementations", n, 1)


def run(repo, col):
    col.rule("V7", "no clamping between the sum of the AD heads and the in_domain test")
    col.rule("V1", "value(): every return inside a [0,1] bounds test, else InvalidValue")
    col.rule("V2", "AD extra-node weight dominated by in_domain(complement)")
    col.rule("V3", "log negate checks the domain; in_domain is an upper bound at 1")
    col.rule("V4", "extract_weights routes weights through pos_value/neg_value -> value()")
    col.rule("V5", "InvalidValue is a ProbLogError")
    col.rule("V6", "the AD sum check covers the complete head list")
    rule_v1(repo, col)
    rule_v2(repo, col)
    rule_v3(repo, col)
    rule_v4(repo, col)
    rule_v5(repo, col)
    rule_v6(repo, col)
    rule_v7(repo, col)
    col.rule("V8", "ad_complement sums all heads")
    rule_v8(repo, col)
