"""C26 (partial) -- subquery/2,3,5 and subquery_in_scope run the same pipeline as top-level inference: wiring rules."""
import ast

from ..index import AnalysisError, norm, walk_no_nested
from ..astutil import dotted
from .. import builtins as bi

MOD = "problog.engine_builtin"
OFFSET = {"_builtin_subquery": 0, "_builtin_subquery_in_scope": 1}  # leading non-pipeline parameters (the scope)
FORMULA = "problog.formula"

EXPLANATION = (
    "Decides the wiring clauses behind C26 (a sub-query is answered by the same ground-then-evaluate pipeline as a top-level query, on the same "
    "program, with the evidence list as evidence); the equality of the numbers themselves is not decided. For both _builtin_subquery and "
    "_builtin_subquery_in_scope (sibling implementations, same rules): Y1 the goal is grounded exactly once, against the `database` argument, with "
    "label 'query' (the value of LogicFormula.LABEL_QUERY); Y2 every element of term2list(evidence) is grounded against the same database INTO THE "
    "SAME target (target=<the query's formula>) with the positive-evidence label (negated elements are turned into negative evidence by "
    "ClauseDBEngine.ground itself: the rule also checks that ground() still names a negated term with the negated node), and the loop is guarded by "
    "nothing but the presence of the evidence argument; Y3 the formula that is compiled and evaluated is that target, after the evidence loop, with the "
    "semiring returned by _create_evaluator_and_semiring, whose `semiring=` / `evaluator=` keywords receive the arguments of the same name; inside the "
    "helper the semiring name is derived from the semiring argument and looked up with get_semiring, the evaluator name from the evaluator argument "
    "and looked up with get_evaluatable (no crossing), and the defaults are name=None; Y4 every return is a list with one tuple per item of the "
    "evaluation result, carrying the answer term in the position of the `term` parameter and Constant(<probability>) in the position of the `prob` "
    "parameter, and the evaluation result is not re-bound (filtered, rounded) between evaluate() and the return; Y5 the registered arities of subquery / subquery_in_scope match the parameter lists (2,3,5 and 3,4,6: goal+prob, +evidence, "
    "+semiring+evaluator) and each arity's call-mode pattern has that length."
    " Added after seed round 8: Y6 ground() names a goal without answers FALSE and a negated goal without answers TRUE under its negated name."
)
TECHNIQUE = "static analysis: pipeline-wiring rules (def-use of the target formula, keyword/parameter agreement, sibling agreement)"
LEVEL_TEXT = EXPLANATION


def _kw(call, name):
    for k in call.keywords:
        if k.arg == name:
            return k.value
    return None


def _is_ground_call(call):
    return isinstance(call, ast.Call) and isinstance(call.func, ast.Attribute) and call.func.attr == "ground"


def _rule_pipeline(repo, col, fname):
    f = repo.func(MOD, fname)
    m = f.module
    allparams = list(f.params) + [a.arg for a in f.node.args.kwonlyargs]
    for p in ("database", "engine"):  # keyword names under which the engine passes them
        if p not in allparams:
            raise AnalysisError("%s: parameter %s not found" % (fname, p))
    off = OFFSET[fname]
    roles = [x for x in f.params if x not in ("database", "engine")][off:off + 5]
    if len(roles) != 5:
        raise AnalysisError("%s: expected goal, prob, evidence, semiring, evaluator parameters; found %s" % (fname, roles))
    P_term, P_prob, P_evid, P_sem, P_eval = roles
    grounds = []
    parents = m.parents()
    for n in walk_no_nested(f.node):
        if _is_ground_call(n):
            grounds.append(n)
    if len(grounds) < 2:
        raise AnalysisError("%s: ground() calls not found" % fname)

    def in_loop(n):
        cur = parents.get(n)
        while cur is not None and cur is not f.node:
            if isinstance(cur, (ast.For, ast.While)):
                return cur
            cur = parents.get(cur)
        return None

    qcalls = [g for g in grounds if in_loop(g) is None]
    ecalls = [g for g in grounds if in_loop(g) is not None]
    # Y1
    col.decide("Y1", m, qcalls[0] if qcalls else f.node, len(qcalls) == 1, "the goal is grounded once", "%s must ground the goal exactly once (found %d ground() calls outside the evidence loop)" % (fname, len(qcalls)),
               construct="def %s: query grounding" % fname, function=fname)
    if len(qcalls) != 1:
        return
    q = qcalls[0]
    qstmt = parents.get(q)
    if not (isinstance(qstmt, ast.Assign) and len(qstmt.targets) == 1 and isinstance(qstmt.targets[0], ast.Name)):
        raise AnalysisError("%s: result of the query grounding is not bound to a name" % fname)
    tname = qstmt.targets[0].id
    qargs = [norm(a) for a in q.args]
    lab = _kw(q, "label")
    labv = lab.value if isinstance(lab, ast.Constant) else (norm(lab) if lab is not None else None)
    okq = qargs[:2] == ["database", P_term] and _kw(q, "target") is None and (labv == "query" or (isinstance(labv, str) and labv.endswith(".LABEL_QUERY")))
    col.decide("Y1", m, q, okq, "goal grounded against `database` with label 'query' into a new formula",
               "%s must ground the goal with <engine>.ground(database, term, label='query') into a fresh formula; found %s" % (fname, norm(q)),
               construct="%s: ground(goal)" % fname, function=fname)
    # Y2
    if len(ecalls) != 1:
        raise AnalysisError("%s: evidence grounding loop not found (%d candidates)" % (fname, len(ecalls)))
    e = ecalls[0]
    loop = in_loop(e)
    it = norm(loop.iter) if isinstance(loop, ast.For) else None
    lv = loop.target.id if isinstance(loop, ast.For) and isinstance(loop.target, ast.Name) else None
    col.decide("Y2", m, loop, it == "term2list(%s)" % P_evid and lv is not None, "every element of the evidence list is visited",
               "%s must visit every element of term2list(evidence); the loop iterates %s" % (fname, it), construct="%s: evidence loop" % fname, function=fname)
    eargs = [norm(a) for a in e.args]
    tg = _kw(e, "target")
    elab = _kw(e, "label")
    elabs = norm(elab) if elab is not None else None
    oklab = elabs in ("%s.LABEL_EVIDENCE_POS" % tname, "'evidence+'", "LogicFormula.LABEL_EVIDENCE_POS")
    col.decide("Y2", m, e, eargs[:2] == ["database", lv] and tg is not None and norm(tg) == tname, "evidence is grounded against `database` into the query's formula",
               "%s must ground each evidence element with ground(database, <element>, target=%s, ...): found %s - evidence grounded into another formula (or against another program) "
               "never conditions the sub-query" % (fname, tname, norm(e)), construct="%s: ground(evidence) target" % fname, function=fname)
    col.decide("Y2", m, e, oklab, "evidence elements carry the positive-evidence label",
               "%s must label evidence elements LABEL_EVIDENCE_POS (negation is handled by ground()); found label=%s" % (fname, elabs),
               construct="%s: ground(evidence) label" % fname, function=fname)
    estmt = parents.get(e)
    okbind = (isinstance(estmt, ast.Assign) and norm(estmt.targets[0]) == tname) or isinstance(estmt, ast.Expr)
    col.decide("Y2", m, estmt if isinstance(estmt, ast.stmt) else e, okbind, "the conditioned formula stays bound to %s" % tname,
               "%s binds the result of the evidence grounding to %s instead of %s" % (fname, norm(estmt.targets[0]) if isinstance(estmt, ast.Assign) else "?", tname),
               construct="%s: ground(evidence) binding" % fname, function=fname)
    # guards of the loop: only the presence of evidence
    cur = parents.get(loop)
    guards = []
    while cur is not None and cur is not f.node:
        if isinstance(cur, ast.If):
            guards.append(norm(cur.test))
        elif not isinstance(cur, ast.If):
            guards.append("<%s>" % type(cur).__name__)
        cur = parents.get(cur)
    col.decide("Y2", m, loop, all(g in (P_evid, "%s is not None" % P_evid, "%s != None" % P_evid) for g in guards), "the loop runs whenever an evidence list is given",
               "%s skips the evidence list under the condition(s) %s" % (fname, guards), construct="%s: evidence loop guard" % fname, function=fname)
    # Y3
    helper = [n for n in walk_no_nested(f.node) if isinstance(n, ast.Call) and dotted(n.func) == "_create_evaluator_and_semiring"]
    if len(helper) != 1:
        raise AnalysisError("%s: _create_evaluator_and_semiring call not found" % fname)
    h = helper[0]
    hst = parents.get(h)
    if not (isinstance(hst, ast.Assign) and isinstance(hst.targets[0], ast.Tuple) and len(hst.targets[0].elts) == 2 and all(isinstance(x, ast.Name) for x in hst.targets[0].elts)):
        raise AnalysisError("%s: result of _create_evaluator_and_semiring is not unpacked into (class, semiring)" % fname)
    kcname, semname = [x.id for x in hst.targets[0].elts]
    okkw = all(_kw(h, k) is not None and norm(_kw(h, k)) == v for k, v in (("semiring", P_sem), ("evaluator", P_eval), ("database", "database"), ("engine", "engine"))) and not h.args
    col.decide("Y3", m, h, okkw, "helper receives semiring=, evaluator=, database=, engine= from the arguments of the same name",
               "%s passes %s to _create_evaluator_and_semiring: each keyword must receive the argument of the same name (a crossed semiring/evaluator or another "
               "database selects a different pipeline than the one asked for)" % (fname, norm(h)[:160]), construct="%s: helper keywords" % fname, function=fname)
    evals = [n for n in walk_no_nested(f.node) if isinstance(n, ast.Call) and isinstance(n.func, ast.Attribute) and n.func.attr == "evaluate"]
    if len(evals) != 1:
        raise AnalysisError("%s: evaluate() call not found" % fname)
    ev = evals[0]
    base = ev.func.value
    okev = isinstance(base, ast.Call) and norm(base.func) == "%s.create_from" % kcname and [norm(a) for a in base.args] == [tname] and not base.keywords
    sv = _kw(ev, "semiring")
    okev = okev and sv is not None and norm(sv) == semname
    col.decide("Y3", m, ev, okev, "the conditioned formula is compiled by the selected class and evaluated with the selected semiring",
               "%s must evaluate %s.create_from(%s).evaluate(semiring=%s); found %s" % (fname, kcname, tname, semname, norm(ev)), construct="%s: evaluate" % fname, function=fname)
    evst = parents.get(ev)
    while evst is not None and not isinstance(evst, ast.stmt):
        evst = parents.get(evst)
    top = {id(s): i for i, s in enumerate(f.node.body)}

    def top_index(n):
        cur = n
        while cur is not None and id(cur) not in top:
            cur = parents.get(cur)
        return top.get(id(cur), -1)

    col.decide("Y3", m, ev, top_index(qstmt) < top_index(loop) < top_index(ev) and top_index(h) >= 0, "evaluation happens after the evidence has been added",
               "%s evaluates the formula before (or independently of) the evidence loop" % fname, construct="%s: order" % fname, function=fname)
    if not (isinstance(evst, ast.Assign) and isinstance(evst.targets[0], ast.Name)):
        raise AnalysisError("%s: evaluation result is not bound to a name" % fname)
    rname = evst.targets[0].id
    rebinds = [st for st in ast.walk(f.node) if isinstance(st, (ast.Assign, ast.AugAssign, ast.AnnAssign)) and st is not evst
               and any(isinstance(t_, ast.Name) and t_.id == rname for t_ in ast.walk(st.targets[0] if isinstance(st, ast.Assign) else st.target))]
    col.decide("Y4", m, rebinds[0] if rebinds else evst, not rebinds, "the evaluation result is reported as computed",
               "%s re-binds the evaluation result %s before reporting it (%s): every answer of the evaluation, including probability 0, must reach the caller unchanged"
               % (fname, rname, norm(rebinds[0])[:100] if rebinds else ""), construct="%s: result re-bound" % fname, function=fname)
    # Y4
    pos = list(f.params)
    it_, ip_ = pos.index(P_term), pos.index(P_prob)
    rets = [r for r in walk_no_nested(f.node) if isinstance(r, ast.Return)]
    if not rets:
        raise AnalysisError("%s: no return" % fname)
    for r in rets:
        v = r.value
        ok = False
        why = norm(v)[:120] if v is not None else "None"
        if isinstance(v, ast.ListComp) and len(v.generators) == 1 and norm(v.generators[0].iter) == "%s.items()" % rname and not v.generators[0].ifs \
                and isinstance(v.generators[0].target, ast.Tuple) and len(v.generators[0].target.elts) == 2 and isinstance(v.elt, ast.Tuple):
            kt, kp = [norm(x) for x in v.generators[0].target.elts]
            el = [norm(x) for x in v.elt.elts]
            ok = len(el) > max(it_, ip_) and el[it_] == kt and el[ip_] == "Constant(%s)" % kp
        col.decide("Y4", m, r, ok, "one answer per evaluated query: (.., term, Constant(p), ..) in the parameter positions",
                   "%s must return one tuple per item of %s.items() with the answer term in position %d and Constant(probability) in position %d; found %s"
                   % (fname, rname, it_, ip_, why), function=fname)
    return f


def _rule_helper(repo, col):
    f = repo.func(MOD, "_create_evaluator_and_semiring")
    m = f.module
    hp = list(f.params) + [a.arg for a in f.node.args.kwonlyargs]
    if "semiring" not in hp or "evaluator" not in hp:
        raise AnalysisError("_create_evaluator_and_semiring: semiring / evaluator parameters not found (%s)" % hp)
    names = {}
    for st in walk_no_nested(f.node):
        if isinstance(st, ast.Assign) and len(st.targets) == 1 and isinstance(st.targets[0], ast.Name):
            v = st.value
            src = None
            for n in ast.walk(v):
                if isinstance(n, ast.Name) and n.id in ("semiring", "evaluator"):
                    src = n.id
            names.setdefault(st.targets[0].id, []).append((src, st))
    gs = [n for n in walk_no_nested(f.node) if isinstance(n, ast.Call) and dotted(n.func) == "get_semiring"]
    ge = [n for n in walk_no_nested(f.node) if isinstance(n, ast.Call) and dotted(n.func) == "get_evaluatable"]
    if len(gs) != 1 or len(ge) != 1:
        raise AnalysisError("_create_evaluator_and_semiring: registry look-ups not found")

    def origin(expr):
        """which parameter a name argument is derived from: 'semiring' / 'evaluator' / None-only / unknown"""
        if expr is None:
            return "default"
        if isinstance(expr, ast.Constant) and expr.value is None:
            return "default"
        if isinstance(expr, ast.Name) and expr.id in names:
            srcs = set(s for s, _ in names[expr.id])
            srcs.discard(None)
            if len(srcs) == 1:
                return srcs.pop()
            if not srcs:
                return "default"
            return "mixed"
        for n in ast.walk(expr):
            if isinstance(n, ast.Name) and n.id in ("semiring", "evaluator"):
                return n.id
        return "unknown"

    a = _kw(gs[0], "name") if gs[0].keywords else (gs[0].args[0] if gs[0].args else None)
    o = origin(a)
    col.decide("Y3", m, gs[0], o == "semiring", "the semiring class is looked up under the name given in the semiring argument",
               "get_semiring is called with a name derived from %s: the semiring argument of subquery/5 must select the semiring" % o, function="_create_evaluator_and_semiring")
    b = _kw(ge[0], "name") if ge[0].keywords else (ge[0].args[0] if ge[0].args else None)
    o2 = origin(b)
    col.decide("Y3", m, ge[0], o2 == "evaluator", "the evaluator class is looked up under the name given in the evaluator argument",
               "get_evaluatable is called with a name derived from %s: the evaluator argument of subquery/5 must select the knowledge compiler" % o2, function="_create_evaluator_and_semiring")
    # the defaults: both names start as None (top-level defaults)
    from .. import dtable

    def helper_default_none(st):
        """`x = helper(<param>, ...)` where the module-level helper returns None for a missing (falsy) first argument"""
        v = st.value
        if not (isinstance(v, ast.Call) and isinstance(v.func, ast.Name) and v.args and isinstance(v.args[0], ast.Name)):
            return None
        h = m.functions.get(v.func.id)
        if h is None or not h.params:
            return None
        ps = dtable.extract(h.node, opaque_loops=True)
        miss = [p_ for p_ in ps if dict((s_, t) for s_, t, _ in p_.conds).get(h.params[0]) is False]
        if not miss:
            return None
        return all(p_.end == "return" and p_.value in ("None", None) for p_ in miss)

    for nm, want in ((a, "semiring"), (b, "evaluator")):
        if isinstance(nm, ast.Name) and nm.id in names:
            inits = [st for s, st in names[nm.id] if s is None]
            if not inits:
                verdicts = [helper_default_none(st) for _, st in names[nm.id]]
                if len(verdicts) == 1 and verdicts[0] is not None:
                    col.decide("Y3", m, names[nm.id][0][1], verdicts[0], "without a %s argument the registry default is used (helper returns None)" % want,
                               "the default %s name must be None (the registry's default, as at top level): the helper returns something else for a missing argument" % want,
                               function="_create_evaluator_and_semiring")
                    continue
                raise AnalysisError("_create_evaluator_and_semiring: default of the %s name has a shape this rule does not model" % want)
            ok = bool(inits) and all(isinstance(st.value, ast.Constant) and st.value.value is None for st in inits)
            col.decide("Y3", m, inits[0] if inits else f.node, ok, "without a %s argument the registry default is used (name=None)" % want,
                       "the default %s name must be None (the registry's default, as at top level)" % want, function="_create_evaluator_and_semiring",
                       **({} if inits else {"construct": "default %s name" % want}))
    # the created semiring instance is what is returned and handed to get_evaluatable
    rets = [r for r in walk_no_nested(f.node) if isinstance(r, ast.Return)]
    okr = len(rets) == 1 and isinstance(rets[0].value, ast.Tuple) and len(rets[0].value.elts) == 2
    if okr:
        kc, sem = [norm(x) for x in rets[0].value.elts]
        sk = _kw(ge[0], "semiring")
        okr = sk is not None and norm(sk) == sem
        par = m.parents()
        gest = par.get(ge[0])
        while gest is not None and not isinstance(gest, ast.stmt):
            gest = par.get(gest)
        okr = okr and isinstance(gest, ast.Assign) and norm(gest.targets[0]) == kc
    col.decide("Y3", m, rets[0] if rets else f.node, okr, "returns (class chosen for the created semiring, that semiring)",
               "_create_evaluator_and_semiring must return the class obtained from get_evaluatable(..., semiring=<created semiring>) together with that same semiring instance",
               function="_create_evaluator_and_semiring", **({} if rets else {"construct": "return"}))


def _rule_ground_negation(repo, col):
    """precondition of Y2: ClauseDBEngine.ground names a negated term with the negated node (so \\+e under LABEL_EVIDENCE_POS is negative evidence)"""
    f = repo.func("problog.engine", "ClauseDBEngine.ground")
    m = f.module
    from .. import dtable
    loops = [n for n in walk_no_nested(f.node) if isinstance(n, ast.For)]
    adds = []
    for lp in loops:
        for p in dtable.extract_block(lp.body, opaque_loops=True):
            for fn, a, node in p.calls:
                if fn == "target.add_name":
                    neg = dict((s_, t) for s_, t, _ in p.conds).get("negated")
                    adds.append((neg, a, node))
    if len(adds) < 2:
        raise AnalysisError("ClauseDBEngine.ground: add_name calls not found")
    n_neg = n_pos = 0
    for neg, a, node in adds:
        if neg is True:
            n_neg += 1
            ok = len(a) >= 3 and a[0].startswith("-") and a[1].startswith("target.negate(") and a[2] == "label"
            col.decide("Y2", m, node, ok, "a negated term is named -term with the negated node and the caller's label",
                       "ground() must store a negated query/evidence term as add_name(-term, target.negate(node), label); found add_name(%s)" % ", ".join(a), function="ClauseDBEngine.ground")
        elif neg is False:
            n_pos += 1
            ok = len(a) >= 3 and not a[0].startswith("-") and not a[1].startswith("target.negate(") and a[2] == "label"
            col.decide("Y2", m, node, ok, "a positive term is named with its node and the caller's label",
                       "ground() must store a positive term as add_name(term, node, label); found add_name(%s)" % ", ".join(a), function="ClauseDBEngine.ground")
    if not n_neg or not n_pos:
        raise AnalysisError("ClauseDBEngine.ground: negated / positive naming branches not found")


def _rule_registry(repo, col, funcs):
    rows = [r for r in bi.registry(repo) if r.name in ("subquery", "subquery_in_scope")]
    if len(rows) < 6:
        raise AnalysisError("subquery registrations not found (%d)" % len(rows))
    from .. import modes
    for r in rows:
        f = r.func
        if f is None:
            raise AnalysisError("subquery/%d: implementation not resolved" % r.arity)
        pos = list(f.params)
        lead = OFFSET[f.name] + 2  # goal + prob (+ scope before them)
        want = {lead, lead + 1, lead + 3}
        col.decide("Y5", f.module, r.node, r.arity in want, "%s/%d is one of the arities the implementation supports %s" % (r.name, r.arity, sorted(want)),
                   "%s/%d is registered but %s takes goal+prob, +evidence or +semiring+evaluator (%s)" % (r.name, r.arity, f.qualname, sorted(want)), function="add_standard_builtins")
    allsites = modes.sites(repo, [MOD])
    n = 0
    for f in funcs:
        pos = list(f.params)
        for s in allsites:
            if s.func is not f:
                continue
            if s.args is None or s.modes is None:
                raise AnalysisError("%s: check_mode call not literal" % f.qualname)
            n += 1
            names = [norm(x) for x in s.args]
            col.decide("Y5", f.module, s.call, names == pos[:len(names)] and all(len(md) == len(names) for md in s.modes),
                       "check_mode%s checks the leading parameters in order with one mode letter each" % (tuple(names),),
                       "check_mode is given %s with patterns %s: the checked tuple must be the leading parameters %s in order, one letter each"
                       % (names, s.modes, pos[:len(names)]), function=f.qualname)
    col.floor("Y5.check_mode_sites", n, 6)


def rule_y6(repo, col):
    """ClauseDBEngine.ground, goal without answers: a positive goal is named FALSE, a NEGATED goal is named TRUE under its negated name (subquery evidence such as [\\+d(3)] reaches
    ground() with the negation still on the term)"""
    from .. import dtable

    f = repo.func("problog.engine", "ClauseDBEngine.ground")
    m = f.module
    paths = dtable.extract(f.node, opaque_loops=True)
    n = 0
    bad = []
    for p_ in paths:
        cd = dict((s_, t_) for s_, t_, _ in p_.conds)
        empty = None
        for s_, t_ in cd.items():
            if s_.replace(" ", "").endswith("[1]") and "self._ground(" in s_:
                empty = (not t_)
            if s_ in ("results", "not results"):
                empty = (not t_) if s_ == "results" else t_
        if empty is not True:
            continue
        nv = p_.env.get("negated")
        if nv not in ("True", "False"):
            continue
        neg = nv == "True"
        names = [a for fn, a, _ in p_.calls if fn == "target.add_name"]
        n += 1
        if len(names) != 1 or not names[0][1].endswith(".TRUE" if neg else ".FALSE") or (neg and not names[0][0].startswith("-")) or (not neg and names[0][0].startswith("-")):
            bad.append("%s goal without answers -> %s" % ("negated" if neg else "positive", names[0][:2] if names else "no name"))
    if n < 2:
        raise AnalysisError("ClauseDBEngine.ground: no-answer cases not found (%d)" % n)
    col.decide("Y6", m, f.node, not bad, "a goal without answers is named FALSE, a negated one TRUE",
               "ClauseDBEngine.ground: %s - a goal that has no answers is false, so its negation is TRUE and must be registered as (-term, TRUE): otherwise subquery(q, P, [\\+d(3)]) with "
               "no d(3) in the program conditions on an impossible event (InconsistentEvidenceError) and subquery(\\+d(3), P) answers 0 instead of 1" % "; ".join(sorted(set(bad))),
               construct="ClauseDBEngine.ground: goal without answers", function="ClauseDBEngine.ground")


def run(repo, col):
    col.rule("Y1", "the goal is grounded once, on the caller's database, as a query")
    col.rule("Y2", "every evidence element is grounded into the same formula as positive evidence (negation by ground())")
    col.rule("Y3", "the conditioned formula is compiled and evaluated with the selected class and semiring; names not crossed")
    col.rule("Y4", "one answer per evaluated query in the parameter positions")
    col.rule("Y5", "registered arities and call-mode patterns agree with the parameter lists")
    funcs = []
    for fname in ("_builtin_subquery", "_builtin_subquery_in_scope"):
        f = _rule_pipeline(repo, col, fname)
        if f is not None:
            funcs.append(f)
    _rule_helper(repo, col)
    _rule_ground_negation(repo, col)
    _rule_registry(repo, col, funcs)
    col.floor("C26.functions", len(funcs), 2)
    col.rule("Y6", "ground(): a goal without answers is FALSE, its negation TRUE")
    rule_y6(repo, col)
