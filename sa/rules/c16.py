"""C16 (partial) -- arithmetic and term-inspection builtins: docs<->table agreement, operator semantics table,
call-mode tables, constant comparisons."""
import ast
import re

from ..index import AnalysisError, norm, walk_no_nested
from ..astutil import dotted
from .. import arith, modes
from .. import builtins as bi
from ..tables import prolog_arith

EXPLANATION = (
    "Decides structural clauses of C16: A1 every item of docs/source/prolog.rst 'Arithmetic -> Supported' (parsed to name/arity) is a key of "
    "logic._arithmetic_functions after the module-level population statements, or a registered builtin for the predicate forms (is, <, =<, >, >=, "
    "=:=, =\\=, between/3, succ/2, plus/3); the 'Predicates on Terms' and 'Comparing Terms' items named by the property are registered with the "
    "documented arity; A2 duplicate keys of the dict literal carry identical implementations; A3 operator-semantics table: the implementation of "
    "each documented function is abstracted to a canonical form (operator and operand order, math function, rounding mode, result type) and "
    "compared with the frozen Yap/SWI meaning of that function (truncating //, mod with the sign of the divisor, round/integer half away from "
    "zero, sign and float_integer_part preserving the float type, ...); deviations the docs state are accepted; A5 call-mode tables: every mode "
    "string has the length of the argument tuple and uses only keys of mode_types, every `mode == k` / `mode in (...)` tests a mode that exists; "
    "A6 no ==/!= between a term parameter of a builtin and a Python string (Term.__eq__ is constant False for non-terms); A7 the arithmetic "
    "comparison builtins </=</>/>=/=:=/=\\= apply the Python operator of the same meaning to the computed values in argument order. "
    "A8 length/2, per call mode of its check_mode table: in the modes whose list argument is partial ('l' open list, 'v' unbound) every answer is a "
    "closed list built by build_list(.., Term('[]')) (the tail gets bound), in the proper-list modes the list is returned unchanged. "
    "A9 succ/2 and plus/3, per call mode of their check_mode tables and folded on sample tuples inside and outside the relation: the all-bound mode succeeds "
    "exactly on tuples of the relation (B = A + 1; C = A + B), each generating mode computes the free argument so that the relation holds. "
    "A4 (error conversion) is decided under C27/E4. Numeric results for all operands and float formatting are value-level and not decided."
    " Added after seed round 6: A10 arg/3 folded for N = 0..3 on a term of arity 2: positions 1..arity select args[N-1], everything else fails."
    " Added after seed round 7: A10 also requires that arg/3 hands back the term with the unified value in place; A11 functor/3 constructs over distinct fresh variables; A12 no function of the builtin / unification / extern modules writes into a mutable default parameter (positive example matched on every run)."
    " Added after seed round 8: A7 also requires that a comparison builtin leaves early only on `is None` tests of its operands."
    " Added after seed round 9: A13 the first-element test of =../2 in construction mode is folded for lists of length 1 to 3: a non-atom head is refused only for lists longer than one."
)
TECHNIQUE = "static analysis: documentation/table agreement, abstract operator semantics vs frozen Prolog table, call-mode table consistency"
LEVEL_TEXT = EXPLANATION

PRED_OPS = {"is", "<", "=<", ">", ">=", "=:=", "=\\="}
PRED_NAMES = {"between", "succ", "plus"}


def parse_doc_items(text, section, sub="Supported"):
    """Items (raw strings inside ``...``, trailing note) of '**<sub>:**' under the rst heading `section`."""
    lines = text.splitlines()
    start = None
    for i, l in enumerate(lines):
        if l.strip() == section and i + 1 < len(lines) and set(lines[i + 1].strip()) <= set("+=-~^") and lines[i + 1].strip():
            start = i + 2
            break
    if start is None:
        raise AnalysisError("docs/source/prolog.rst: section %r not found" % section)
    items = []
    active = False
    for l in lines[start:]:
        s = l.strip()
        if s and set(s) <= set("+=-~^") and len(s) > 3:
            # next heading underline: the heading line itself was the previous one
            if items and not active:
                pass
            break
        if s.startswith("**"):
            active = s.startswith("**%s:**" % sub)
            continue
        if active and s.startswith("* ``"):
            mm = re.match(r"\* ``(.*?)``\s*(.*)$", s)
            if mm:
                items.append((mm.group(1), mm.group(2)))
    # drop an item that is actually the next section's title (cannot happen with the `* ``` prefix)
    return items


def doc_item_key(raw):
    """'X+Y' -> ('+', 2) ; 'exp/1' -> ('exp', 1) ; '-X' -> ('-', 1) ; 'X' -> None ; 'T =.. L' -> ('=..', 2)"""
    raw = raw.strip()
    mm = re.match(r"^([a-z_][a-zA-Z0-9_]*)/(\d+)$", raw)
    if mm:
        return mm.group(1), int(mm.group(2))
    if re.match(r"^[A-Z][a-zA-Z0-9]*$", raw):
        return None  # bare variable
    mm = re.match(r"^([A-Z][a-zA-Z0-9]*)\s*(\S+?)\s*([A-Z][a-zA-Z0-9]*)$", raw)
    if mm:
        return mm.group(2), 2
    mm = re.match(r"^(\S+?)\s*([A-Z][a-zA-Z0-9]*)$", raw)
    if mm:
        return mm.group(1), 1
    raise AnalysisError("documentation item not understood: %r" % raw)


def rule_a1(repo, col):
    text = repo.text("docs/source/prolog.rst")
    rows, final = arith.table(repo)
    reg = bi.registry(repo)
    regkeys = {}
    for r in reg:
        regkeys.setdefault(r.name, set()).add(r.arity)
    lm = repo.module("problog.logic")
    items = parse_doc_items(text, "Arithmetic")
    n = 0
    documented = {}
    for raw, note in items:
        key = doc_item_key(raw)
        if key is None:
            continue
        n += 1
        documented[key] = note
        name, ar = key
        anchor = final[key].node if key in final else lm.tree
        if name in PRED_OPS or (name in PRED_NAMES):
            okp = ar in regkeys.get(name, ())
            col.decide("A1", "problog.engine_builtin", None, okp, "documented predicate %s/%d is registered" % key,
                       "docs list %s/%d as supported but no builtin of that name and arity is registered" % key,
                       construct="docs: %s" % raw, function="add_standard_builtins")
        else:
            col.decide("A1", lm, None, key in final, "documented function %s/%d is in the dispatch table" % key,
                       "docs list %s/%d as a supported arithmetic function but _arithmetic_functions has no such key: 'X is ...' raises Unknown function" % key,
                       construct="docs: %s" % raw, function="_arithmetic_functions")
    col.floor("A1.documented_arithmetic_items", n, 60)
    # predicates on terms / comparing terms named by the property
    wanted = {
        "Predicates on Terms": ["var/1", "atom/1", "atomic/1", "compound/1", "float/1", "integer/1", "number/1", "callable/1", "ground/1", "arg/3",
                                "functor/3", "T =.. L", "X = Y", "X \\= Y", "is_list/1", "nonvar/1"],
        "Comparing Terms": ["compare/3", "X == Y", "X \\== Y", "X @< Y", "X @=< Y", "X @> Y", "X @>= Y", "sort/2", "length/2"],
    }
    for section, names in wanted.items():
        for w in names:
            key = doc_item_key(w)
            okp = key is not None and key[1] in regkeys.get(key[0], ())
            col.decide("A1", "problog.engine_builtin", None, okp, "predicate %s named by the property is registered" % w,
                       "the property names %s but no builtin %s/%d is registered" % (w, key[0], key[1]), construct="property: %s" % w, function="add_standard_builtins")
    # C16 also names atom_number/2
    col.decide("A1", "problog.engine_builtin", None, 2 in regkeys.get("atom_number", ()), "atom_number/2 is registered", "atom_number/2 is not registered",
               construct="property: atom_number/2", function="add_standard_builtins")
    return documented, final


def rule_a2(repo, col):
    rows, final = arith.table(repo)
    m = repo.module("problog.logic")
    seen = {}
    ndup = 0
    for r in rows:
        k = (r.name, r.arity)
        src = norm(r.value) if not isinstance(r.value, tuple) else "math.%s" % r.value[1]
        if k in seen:
            ndup += 1
            col.decide("A2", m, r.node, seen[k] == src, "duplicate key %s/%d carries the same implementation" % k,
                       "key %s/%d is defined twice with different implementations (%s, then %s): the later silently wins" % (k[0], k[1], seen[k], src),
                       construct="(%r, %d): %s" % (k[0], k[1], src), function="_arithmetic_functions")
        seen[k] = src
    col.count("A2.duplicate_keys", ndup)


# ------------------------------------------------------------------ A3 canonical forms

def canonical(row):
    """Canonical abstract form of an implementation."""
    v = row.value
    if isinstance(v, tuple):
        return "math.%s" % v[1]
    if isinstance(v, ast.Attribute) and dotted(v).startswith("math."):
        return dotted(v)
    if isinstance(v, ast.Name):
        return v.id
    if isinstance(v, ast.Lambda):
        params = [a.arg for a in v.args.args]
        return _canon_expr(v.body, params)
    return "?" + norm(v)


def _canon_expr(e, params):
    if isinstance(e, ast.Name) and e.id in params:
        return "$%d" % params.index(e.id)
    if isinstance(e, ast.Constant):
        return repr(e.value)
    if isinstance(e, ast.BinOp):
        return "%s(%s,%s)" % (type(e.op).__name__, _canon_expr(e.left, params), _canon_expr(e.right, params))
    if isinstance(e, ast.UnaryOp):
        return "%s(%s)" % (type(e.op).__name__, _canon_expr(e.operand, params))
    if isinstance(e, ast.Call):
        d = dotted(e.func)
        return "%s(%s)" % (d, ",".join(_canon_expr(a, params) for a in e.args))
    if isinstance(e, ast.Attribute):
        return dotted(e)
    if isinstance(e, ast.IfExp):
        return "if(%s,%s,%s)" % (_canon_expr(e.test, params), _canon_expr(e.body, params), _canon_expr(e.orelse, params))
    if isinstance(e, ast.Compare) and len(e.ops) == 1:
        return "%s(%s,%s)" % (type(e.ops[0]).__name__, _canon_expr(e.left, params), _canon_expr(e.comparators[0], params))
    return "?" + norm(e)


def rule_a3(repo, col, documented, final):
    m = repo.module("problog.logic")
    n = 0
    for key in sorted(documented):
        if key[0] in PRED_OPS or key[0] in PRED_NAMES or key not in final:
            continue
        row = final[key]
        canon = canonical(row)
        spec = prolog_arith.SPEC.get(key)
        if spec is None:
            raise AnalysisError("no Prolog semantics row for documented function %s/%d" % key)
        n += 1
        meaning = prolog_arith.MEANING_OF_CANON.get(canon)
        if meaning is None:
            raise AnalysisError("implementation of %s/%d has a shape with no entry in the Python->meaning table: %s" % (key[0], key[1], canon))
        note = documented[key]
        if meaning == spec["meaning"]:
            col.ok("A3", m, row.node, "%s/%d: %s has the Prolog meaning '%s'" % (key[0], key[1], canon, meaning),
                   construct="(%r, %d): %s" % (key[0], key[1], canon), function="_arithmetic_functions")
        elif spec.get("doc_deviation") and spec["doc_deviation"] in note and meaning == spec.get("deviation_meaning"):
            col.ok("A3", m, row.node, "%s/%d: deviation stated in the docs (%s)" % (key[0], key[1], note),
                   construct="(%r, %d): %s" % (key[0], key[1], canon), function="_arithmetic_functions")
        else:
            col.fail("A3", m, row.node, "%s/%d is implemented as %s, which means '%s'; Yap/SWI define it as '%s' (%s)"
                     % (key[0], key[1], canon, meaning, spec["meaning"], spec.get("example", "")),
                     construct="(%r, %d): %s" % (key[0], key[1], canon), function="_arithmetic_functions")
    col.floor("A3.semantic_rows", n, 50)


def rule_a5(repo, col):
    keys = modes.mode_type_keys(repo)
    ss = modes.sites(repo, ["problog.engine_builtin", "problog.extern", "problog.library.lists", "problog.library.string", "problog.library.record",
                            "problog.library.db", "problog.library.assert", "problog.library.aproblog"])
    n = 0
    for s in ss:
        m = s.func.module
        if s.modes is None:
            col.note("check_mode with non-literal mode list at %s:%d" % (m.relpath, s.call.lineno))
            continue
        n += 1
        for md in s.modes:
            bad = [ch for ch in md if ch not in keys]
            col.decide("A5", m, s.call, not bad, "mode %r uses known type letters" % md,
                       "mode string %r uses %s, which is not a key of mode_types (KeyError when the builtin is called)" % (md, bad),
                       construct="%s mode %r letters" % (norm(s.call.func) + "(" + norm(s.call.args[0]) + ")", md), function=s.func.qualname)
            if s.args is not None:
                col.decide("A5", m, s.call, len(md) == len(s.args), "mode %r has one letter per argument" % md,
                           "mode string %r has %d letters for %d arguments: zip() silently ignores the rest, so %s"
                           % (md, len(md), len(s.args), "the last argument(s) are never type-checked" if len(md) < len(s.args) else "the mode can never describe the call"),
                           construct="%s mode %r length" % (norm(s.call.func) + "(" + norm(s.call.args[0]) + ")", md), function=s.func.qualname)
        for ch in modes.chain_analysis(s):
            col.decide("A5", m, ch["if"].test, not ch["out_of_range"], "tested modes exist",
                       "tests mode value(s) %s but check_mode was given %d modes (indices 0..%d): the branch is dead and the mode it was meant for is unhandled"
                       % (sorted(ch["out_of_range"]), len(s.modes), len(s.modes) - 1), function=s.func.qualname)
    col.floor("A5.check_mode_sites", n, 40)


def rule_a6(repo, col):
    impls = bi.implementations(repo)
    n = 0
    for fname, row in sorted(impls.items()):
        f = row.func
        a = f.node.args
        params = set(x.arg for x in a.posonlyargs + a.args if x.arg not in ("engine", "database", "target", "context", "callback", "transform", "location", "identifier"))
        defaults_off = len(a.args) - len(a.defaults)
        params = set(x.arg for i, x in enumerate(a.args) if i < defaults_off)
        # a parameter that is re-bound anywhere in the function (e.g. scope = str(scope)) is no longer known to be a term
        rebound = set(n.id for n in walk_no_nested(f.node) if isinstance(n, ast.Name) and isinstance(n.ctx, ast.Store))
        params -= rebound
        for node in walk_no_nested(f.node):
            if isinstance(node, ast.Compare) and len(node.ops) == 1 and isinstance(node.ops[0], (ast.Eq, ast.NotEq)):
                l, r = node.left, node.comparators[0]
                for x, y in ((l, r), (r, l)):
                    if isinstance(x, ast.Name) and x.id in params:
                        is_str = (isinstance(y, ast.Constant) and isinstance(y.value, str)) or (isinstance(y, ast.Call) and dotted(y.func) in ("str", "repr", "term2str"))
                        if is_str:
                            n += 1
                            col.fail("A6", f.module, node, "compares the term argument %r with a Python string: Term.__eq__ returns False for every non-Term, so the test is constant "
                                     "and the builtin cannot succeed on this branch" % x.id)
    col.count("A6.term_vs_string_comparisons", n)
    # positive control: the rule must still see builtin parameters compared with something
    ncmp = 0
    for fname, row in impls.items():
        for node in walk_no_nested(row.func.node):
            if isinstance(node, ast.Compare):
                ncmp += 1
    col.floor("A6.comparisons_scanned", ncmp, 60)


CMP_BUILTINS = {">": ast.Gt, "<": ast.Lt, "=<": ast.LtE, ">=": ast.GtE, "=\\=": ast.NotEq, "=:=": ast.Eq}


def rule_a7(repo, col):
    reg = bi.registry(repo)
    for name, opcls in CMP_BUILTINS.items():
        rows = [r for r in reg if r.name == name and r.arity == 2]
        if len(rows) != 1:
            raise AnalysisError("arithmetic comparison %s/2 registration not found" % name)
        f = rows[0].func
        m = f.module
        p1, p2 = f.params[0], f.params[1]
        vals = {}
        for st in walk_no_nested(f.node):
            if isinstance(st, ast.Assign) and isinstance(st.targets[0], ast.Name) and isinstance(st.value, ast.Call) and isinstance(st.value.func, ast.Attribute) \
                    and st.value.func.attr == "compute_value" and isinstance(st.value.func.value, ast.Name):
                vals[st.targets[0].id] = st.value.func.value.id
        # operands computed by a helper that returns the pair (v1, v2) = (x.compute_value(..), y.compute_value(..)) of its first two parameters (inlining bound 1)
        for st in walk_no_nested(f.node):
            if isinstance(st, ast.Assign) and isinstance(st.targets[0], ast.Tuple) and len(st.targets[0].elts) == 2 and all(isinstance(e_, ast.Name) for e_ in st.targets[0].elts) \
                    and isinstance(st.value, ast.Call) and isinstance(st.value.func, ast.Name) and st.value.func.id in m.functions and len(st.value.args) >= 2:
                h = m.functions[st.value.func.id]
                hv = {}
                for hs in walk_no_nested(h.node):
                    if isinstance(hs, ast.Assign) and isinstance(hs.targets[0], ast.Name) and isinstance(hs.value, ast.Call) and isinstance(hs.value.func, ast.Attribute) \
                            and hs.value.func.attr == "compute_value" and isinstance(hs.value.func.value, ast.Name):
                        hv[hs.targets[0].id] = hs.value.func.value.id
                hr = [r for r in walk_no_nested(h.node) if isinstance(r, ast.Return) and isinstance(r.value, ast.Tuple) and len(r.value.elts) == 2]
                if len(hr) == 1:
                    for tgt, el in zip(st.targets[0].elts, hr[0].value.elts):
                        src_param = hv.get(norm(el))
                        if isinstance(el, ast.Call) and isinstance(el.func, ast.Attribute) and el.func.attr == "compute_value" and isinstance(el.func.value, ast.Name):
                            src_param = el.func.value.id
                        if src_param in h.params and h.params.index(src_param) < len(st.value.args) and isinstance(st.value.args[h.params.index(src_param)], ast.Name):
                            vals[tgt.id] = st.value.args[h.params.index(src_param)].id
        rets = [r for r in walk_no_nested(f.node) if isinstance(r, ast.Return) and isinstance(r.value, ast.Compare)]
        if len(rets) != 1 or len(rets[0].value.ops) != 1:
            raise AnalysisError("%s: comparison return not understood" % f.name)
        c = rets[0].value
        l, r = norm(c.left), norm(c.comparators[0])
        got = type(c.ops[0])
        if (vals.get(l), vals.get(r)) == (p2, p1):
            flip = {ast.Lt: ast.Gt, ast.Gt: ast.Lt, ast.LtE: ast.GtE, ast.GtE: ast.LtE, ast.Eq: ast.Eq, ast.NotEq: ast.NotEq}
            got = flip[got]
        elif (vals.get(l), vals.get(r)) != (p1, p2):
            raise AnalysisError("%s: compared values are not the computed arguments" % f.name)
        col.decide("A7", m, rets[0], got is opcls and rows[0].wrapper == "b", "%s/2 applies the matching Python comparison to the computed values" % name,
                   "%s/2 is implemented by %s, which compares the computed arguments with the wrong operator" % (name, f.name))
        # the comparison is reached for every pair of NUMBERS, zero included: the only admissible early exit is on a value that is None (no value), never on a falsy value
        from .. import dtable as _dt
        zero_bad = []
        vnames = sorted(vals)
        for p_ in _dt.extract(f.node, opaque_loops=True):
            if p_.end == "return" and isinstance(ast.parse(p_.value, mode="eval").body if p_.value else None, ast.Compare):
                continue
            if p_.end == "raise" and any(s_.startswith("<except") and t_ for s_, t_, _ in p_.conds):
                # the comparison (or the computation of an operand) was attempted and failed: an error report, not an answer
                continue
            tests = [(s_, t_) for s_, t_, _ in p_.conds if not s_.startswith("<")]
            # an early exit: every deciding test must be an `is None` test that holds
            for s_, t_ in tests:
                if not (s_.endswith(" is None") or s_.endswith(" is not None")):
                    zero_bad.append("%s is %s" % (s_, t_))
            if tests and not any((s_.endswith(" is None") and t_) or (s_.endswith(" is not None") and not t_) for s_, t_ in tests):
                zero_bad.append("no operand is known to be None")
        col.decide("A7", m, f.node, not zero_bad, "%s/2 leaves early only when an operand has no value (is None)" % name,
                   "%s/2 returns without comparing when %s: a test on the truth value of a computed operand treats 0 and 0.0 as 'no value', so the comparison fails for every pair with a "
                   "zero operand (0 =\\= 1 is false)" % (name, "; ".join(sorted(set(zero_bad))[:2])), construct="def %s: early exit on a falsy operand" % f.name, function=f.name)
        # both arguments must be checked ground
        ss = [s for s in modes.sites(repo, ["problog.engine_builtin"]) if s.func is f]
        okm = len(ss) == 1 and ss[0].modes == ["gg"]
        col.decide("A7", m, f.node, okm, "%s/2 requires both arguments ground" % name, "%s/2 must check both arguments ground (CallModeError otherwise)" % name,
                   construct="def %s: call mode" % f.name, function=f.name)


def rule_a8(repo, col):
    """length/2 in the modes whose list argument is partial ('l' open list, 'v' variable): every answer is a closed list built by build_list(.., Term('[]'))"""
    from .. import dtable, modes

    MOD = "problog.engine_builtin"
    f = repo.func(MOD, "_builtin_length")
    m = f.module
    sites = [s_ for s_ in modes.sites(repo, [MOD]) if s_.func is f]
    if len(sites) != 1 or sites[0].modes is None or sites[0].var is None:
        raise AnalysisError("_builtin_length: check_mode site not understood")
    site = sites[0]
    call_src = norm(site.call)
    lparam = f.params[0]
    paths = dtable.extract(f.node, opaque_loops=True)
    n = 0
    for i, md in enumerate(site.modes):
        ps = dtable.compatible(paths, [(call_src, i)])
        if not ps:
            raise AnalysisError("_builtin_length: no path for mode %r" % md)
        partial = md[0] in ("l", "v")
        for p in ps:
            if p.end != "return" or p.value in ("[]", None):
                continue
            n += 1
            try:
                e = ast.parse(p.value, mode="eval").body
            except SyntaxError:
                raise AnalysisError("_builtin_length: return value not parseable")
            if not (isinstance(e, ast.List) and len(e.elts) == 1 and isinstance(e.elts[0], ast.Tuple) and len(e.elts[0].elts) == 2):
                raise AnalysisError("_builtin_length: return value not understood: %s" % p.value[:80])
            first = norm(e.elts[0].elts[0])
            if partial:
                ok = first.startswith("build_list(") and first.endswith("Term('[]'))")
                col.decide("A8", m, f.node, ok, "mode %r: the answer is a closed list of the requested length" % md,
                           "length/2 in mode %r (list argument %s) returns %s as the list: the answer must be a closed list built with build_list(..., Term('[]')) - returning the "
                           "partial list itself leaves its tail unbound, so `length([a|T], 1)` does not bind T to []" % (md, "open" if md[0] == "l" else "unbound", first[:60]),
                           construct="def _builtin_length: mode %s answer (%s)" % (md, "closed" if ok else first[:40]), function="_builtin_length")
            else:
                col.decide("A8", m, f.node, first == lparam, "mode %r: a proper list is returned as it is" % md, "length/2 in mode %r must return the given proper list unchanged" % md,
                           construct="def _builtin_length: mode %s answer" % md, function="_builtin_length")
    col.floor("A8.length_answers", n, 4)


# relation builtins: name -> (relation over the integer arguments, tuples in the relation, tuples outside it)
RELATIONS = {
    "_builtin_succ": ("succ(A, B): B = A + 1", lambda a, b: b == a + 1, [(2, 3), (0, 1)], [(3, 2), (2, 2), (2, 4)]),
    "_builtin_plus": ("plus(A, B, C): C = A + B", lambda a, b, c: a + b == c, [(2, 3, 5), (4, 0, 4)], [(2, 3, 6), (5, 3, 2), (2, 5, 3)]),
}


def rule_a9(repo, col):
    """succ/2 and plus/3 decide and generate the same relation in every call mode (folded on sample tuples)"""
    from .. import dtable, modes
    from ..astutil import const_value

    MOD = "problog.engine_builtin"
    n = 0
    for fname, (text, rel, good, bad) in sorted(RELATIONS.items()):
        f = repo.func(MOD, fname)
        m = f.module
        sites = [s_ for s_ in modes.sites(repo, [MOD]) if s_.func is f]
        if len(sites) != 1 or sites[0].modes is None:
            raise AnalysisError("%s: check_mode site not understood" % fname)
        site = sites[0]
        call_src = norm(site.call)
        k = len(site.modes[0])
        params = f.params[:k]
        paths = dtable.extract(f.node, opaque_loops=True)
        for i, md in enumerate(site.modes):
            bound = [c_ not in ("v",) for c_ in md]
            for tup, member in [(t_, True) for t_ in good] + [(t_, False) for t_ in bad]:
                if not all(bound) and not member:
                    continue  # generating modes are checked on members only (the free argument is computed)
                mapping = [(call_src, i)] + [("int(%s)" % params[j], tup[j]) for j in range(k) if bound[j]]
                ps = dtable.compatible(paths, mapping)
                ps = [p_ for p_ in ps if all(dtable.eval_atom(s_, mapping, None) is not None for s_, _, _ in p_.conds)]
                if len(ps) != 1 or ps[0].end != "return":
                    raise AnalysisError("%s: %d decided paths in mode %r for %s" % (fname, len(ps), md, tup))
                val = ps[0].value
                n += 1
                if val == "[]":
                    answers = []
                else:
                    try:
                        e = ast.parse(val, mode="eval").body
                    except SyntaxError:
                        raise AnalysisError("%s: return value not parseable" % fname)
                    if not (isinstance(e, ast.List) and len(e.elts) == 1 and isinstance(e.elts[0], ast.Tuple) and len(e.elts[0].elts) == k):
                        raise AnalysisError("%s: return value not understood: %s" % (fname, val[:80]))
                    ans = []
                    for j, el in enumerate(e.elts[0].elts):
                        if isinstance(el, ast.Name) and el.id == params[j] and bound[j]:
                            ans.append(tup[j])
                        elif isinstance(el, ast.Call) and dotted(el.func) == "Constant" and len(el.args) == 1:
                            txt = dtable_text(norm(el.args[0]), mapping)
                            okf, v = const_value(ast.parse(txt, mode="eval").body)
                            if not okf:
                                raise AnalysisError("%s: generated argument not foldable: %s" % (fname, norm(el.args[0])))
                            ans.append(v)
                        else:
                            raise AnalysisError("%s: answer component not understood: %s" % (fname, norm(el)))
                    answers = [tuple(ans)]
                if all(bound):
                    ok = (answers == [tup]) if member else (answers == [])
                    what = "%s %s the relation" % (tup, "is in" if member else "is not in")
                else:
                    ok = len(answers) == 1 and rel(*answers[0]) and all(answers[0][j] == tup[j] for j in range(k) if bound[j])
                    what = "the free argument of %s is computed from the bound ones" % (tuple(tup[j] if bound[j] else "_" for j in range(k)),)
                col.decide("A9", m, f.node, ok, "%s, mode %r: %s" % (text, md, what),
                           "%s in mode %r answers %s for the arguments %s: %s" % (text, md, answers, tuple(tup[j] if bound[j] else "_" for j in range(k)),
                                                                               "it must succeed exactly on the tuples of the relation and generate the missing argument so that the relation holds"),
                           construct="%s: mode %s, arguments %s" % (fname, md, tuple(tup[j] if bound[j] else "_" for j in range(k))), function=fname)
    col.floor("A9.relation_cases", n, 12)


def rule_a10(repo, col):
    """arg/3: arg(N, T, A) selects the N-th argument (1-based) for 1 <= N <= arity and fails outside that range (folded for N = 0..3 on a term of arity 2)"""
    from .. import dtable
    from ..astutil import const_value

    MOD = "problog.engine_builtin"
    f = repo.func(MOD, "_builtin_arg")
    m = f.module
    if len(f.params) < 3:
        raise AnalysisError("_builtin_arg: parameters not understood")
    idx, term = f.params[0], f.params[1]
    paths = dtable.extract(f.node, opaque_loops=True)
    n = 0
    arity = 2
    for N in (0, 1, 2, 3):
        mapping = [("int(%s)" % idx, N), ("len(%s.args)" % term, arity), ("%s.arity" % term, arity)]
        ps = [p_ for p_ in dtable.compatible(paths, mapping) if not any(s_.startswith("<except") for s_, _, _ in p_.conds)]
        ps = [p_ for p_ in ps if all(dtable.eval_atom(s_, mapping, None) is not None for s_, _, _ in p_.conds)]
        if len(ps) != 1 or ps[0].end != "return":
            raise AnalysisError("_builtin_arg: %d decided paths for N=%d" % (len(ps), N))
        val = ps[0].value
        n += 1
        if val == "[]":
            sel = None
        else:
            try:
                e = ast.parse(val, mode="eval").body
            except SyntaxError:
                raise AnalysisError("_builtin_arg: return value not parseable")
            # the selected argument is what is unified with the third argument
            uni = [x for x in ast.walk(e) if isinstance(x, ast.Call) and dotted(x.func) == "unify_value" and x.args and isinstance(x.args[0], ast.Subscript)
                   and norm(x.args[0].value) == "%s.args" % term and not isinstance(x.args[0].slice, ast.Slice)]
            subs = [uni[0].args[0]] if uni and len({norm(u) for u in uni}) == 1 else \
                [x for x in ast.walk(e) if isinstance(x, ast.Subscript) and norm(x.value) == "%s.args" % term and not isinstance(x.slice, ast.Slice)]
            if len(subs) != 1:
                raise AnalysisError("_builtin_arg: selected argument not found in %s" % val[:80])
            if uni and isinstance(e, ast.List) and len(e.elts) == 1 and isinstance(e.elts[0], ast.Tuple) and len(e.elts[0].elts) == 3 and 1 <= N <= arity:
                second = norm(e.elts[0].elts[1])
                col.decide("A10", m, f.node, norm(uni[0]) in second, "arg(%d, T, A): the term handed back carries the unified argument" % N,
                           "arg(%d, T, A) hands back %s as its second argument: the value unified with A must also be placed in T at position %d, otherwise T = f(X,Y), arg(1,T,a) leaves X "
                           "unbound" % (N, second[:60], N), construct="_builtin_arg: N=%d, term carries the binding" % N, function="_builtin_arg")
            txt = dtable_text(norm(subs[0].slice), mapping)
            okf, sel = const_value(ast.parse(txt, mode="eval").body)
            if not okf or not isinstance(sel, int):
                raise AnalysisError("_builtin_arg: selected position not foldable: %s" % txt)
            if sel < 0:
                sel = ("from the end", sel)
        want = N - 1 if 1 <= N <= arity else None
        col.decide("A10", m, f.node, sel == want, "arg(%d, f(a,b), A): %s" % (N, "argument %d" % N if want is not None else "fails"),
                   "arg(%d, T, A) on a term of arity %d %s; Prolog's arg/3 enumerates exactly the positions 1..arity and fails for N = 0 and N > arity"
                   % (N, arity, "fails" if sel is None else "selects %s.args[%s]" % (term, sel if isinstance(sel, int) else sel[1])),
                   construct="_builtin_arg: N=%d" % N, function="_builtin_arg")
    col.floor("A10.arg_positions", n, 4)


def rule_a11(repo, col):
    """functor/3, construction mode (functor(T, f, 2)): the new term's arguments are distinct fresh variables - a repetition of one value (`(None,) * n`) names ONE variable n times"""
    from .. import dtable, modes

    MOD = "problog.engine_builtin"
    f = repo.func(MOD, "_builtin_functor")
    m = f.module
    sites = [s_ for s_ in modes.sites(repo, [MOD]) if s_.func is f]
    if len(sites) != 1 or sites[0].modes is None:
        raise AnalysisError("_builtin_functor: check_mode site not understood")
    site = sites[0]
    build = [i for i, md in enumerate(site.modes) if md[0] == "v"]
    if len(build) != 1:
        raise AnalysisError("_builtin_functor: construction mode not found in %s" % (site.modes,))
    paths = dtable.compatible(dtable.extract(f.node, opaque_loops=True), [(norm(site.call), build[0])])
    paths = [p_ for p_ in paths if p_.end == "return" and p_.value not in ("[]", None)]
    if len(paths) != 1:
        raise AnalysisError("_builtin_functor: %d answering paths in the construction mode" % len(paths))
    e = ast.parse(paths[0].value, mode="eval").body
    terms = [x for x in ast.walk(e) if isinstance(x, ast.Call) and dotted(x.func) == "Term" and any(isinstance(a, ast.Starred) for a in x.args)]
    if len(terms) != 1:
        raise AnalysisError("_builtin_functor: constructed term not found in %s" % paths[0].value[:80])
    star = [a.value for a in terms[0].args if isinstance(a, ast.Starred)][0]
    repeated = isinstance(star, ast.BinOp) and isinstance(star.op, ast.Mult) and any(isinstance(x, (ast.Tuple, ast.List)) and len(x.elts) == 1 for x in (star.left, star.right))
    fresh = isinstance(star, ast.Call) and dotted(star.func) == "range" and "context_min_var" in norm(star)
    if not repeated and not fresh:
        raise AnalysisError("_builtin_functor: argument list of the new term not understood: %s" % norm(star)[:80])
    col.decide("A11", m, f.node, fresh, "functor(T, f, N) builds f with N distinct fresh variables",
               "functor/3 in its construction mode builds the term with the arguments %s: one value repeated N times is ONE variable N times (the call-return step maps equal placeholders to "
               "the same fresh variable), so functor(T, f, 2), T = f(a, b) fails; the arguments must be distinct fresh variables" % norm(star)[:60],
               construct="_builtin_functor: arguments of the constructed term", function="_builtin_functor")


def rule_a12(repo, col):
    """a builtin's answer depends on its arguments only: no function of the builtin / unification modules has a mutable default parameter that it (or a callee it hands the
    parameter to) writes into - such an object is created once and carries bindings from one call into the next"""
    from .. import mutdefault
    from ..callgraph import CallGraph

    if not mutdefault.selftest():
        raise AnalysisError("mutable-default rule does not fire on its positive example")
    cg = CallGraph(repo)
    n_funcs = 0
    n_defaults = 0
    for f in repo.all_functions():
        if f.module.name not in ("problog.engine_builtin", "problog.engine_unify", "problog.extern", "problog.library.aggregate", "problog.library.collect"):
            continue
        n_funcs += 1
        cands = mutdefault.params_with_mutable_default(f.node)
        if not cands:
            continue

        def res(call, _f=f):
            r = cg.resolve(_f, call)
            return r[0].node if len(r) == 1 else None
        mut = mutdefault.mutated_params(f.node, res)
        for name, d in cands:
            n_defaults += 1
            col.decide("A12", f.module, f.node, name not in mut, "%s: mutable default of %s is never written" % (f.qualname, name),
                       "%s declares %s=%s and writes into it (directly or through a callee): the default object is created once, so the bindings of one call are still there in the "
                       "next - functor(foo(a),F,A) followed by functor(bar(a,b),F2,A2) then unifies F2/A2 against the stale foo/1 and fails" % (f.qualname, name, norm(d)),
                       construct="%s: shared mutable default %s" % (f.qualname, name), function=f.qualname)
    col.ok("A12", repo.modules["problog.engine_builtin"], repo.modules["problog.engine_builtin"].tree, "builtin and unification modules scanned for written mutable defaults: %d functions, %d "
           "mutable defaults; positive example of the rule matched" % (n_funcs, n_defaults), construct="builtin modules: mutable-default scan", function="<module>")
    col.floor("A12.functions_scanned", n_funcs, 150)


def rule_a13(repo, col):
    """=../2, construction from a list: only a list of length > 1 needs an atom as its first element (T =.. [5] gives T = 5); folded for lengths 1 and 2"""
    from .. import dtable

    f = repo.func("problog.engine_builtin", "_builtin_split_call")
    m = f.module
    tests = [n for n in ast.walk(f.node) if isinstance(n, ast.If) and "_is_atom(" in norm(n.test) and any(isinstance(x, ast.Raise) for x in n.body)]
    if len(tests) != 1:
        raise AnalysisError("_builtin_split_call: first-element test not found")
    t = tests[0]
    atoms = [norm(x) for x in ast.walk(t.test) if isinstance(x, ast.Call) and dotted(x.func) == "_is_atom"]
    lens = sorted({norm(x) for x in ast.walk(f.node) if isinstance(x, ast.Call) and dotted(x.func) == "len" and "elements" in norm(x)})
    if len(set(atoms)) != 1 or len(lens) != 1:
        raise AnalysisError("_builtin_split_call: test atoms not understood")
    bad = []
    for ln, is_atom, want_raise in ((1, False, False), (1, True, False), (2, False, True), (2, True, False), (3, False, True)):
        v = dtable.eval_atom(norm(t.test), [(lens[0], ln), (atoms[0], is_atom)], default=None)
        if v is None:
            raise AnalysisError("_builtin_split_call: first-element test not decidable: %s" % norm(t.test))
        if v != want_raise:
            bad.append("list of length %d whose first element is %s: %s" % (ln, "an atom" if is_atom else "not an atom", "rejected" if v else "accepted"))
    col.decide("A13", m, t, not bad, "T =.. L rejects a non-atom first element only for lists longer than one",
               "=../2 in construction mode: %s - Prolog builds the term 5 from [5] and refuses only [5, a] (a number cannot be a functor)" % "; ".join(bad),
               construct="_builtin_split_call: first-element test", function="_builtin_split_call")


def dtable_text(src, mapping):
    from .. import dtable

    e = ast.parse(src, mode="eval").body
    e = dtable._Scenario([(norm(ast.parse(k_, mode="eval").body), v) for k_, v in mapping]).visit(e)
    return norm(e)


def run(repo, col):
    col.rule("A10", "arg/3 selects positions 1..arity only and binds the selected argument in the term")
    col.rule("A11", "functor/3 builds a term over distinct fresh variables")
    col.rule("A12", "no builtin keeps state in a mutable default parameter")
    col.rule("A9", "succ/2 and plus/3: one relation in every call mode")
    col.rule("A8", "length/2 answers are closed lists in the partial-list modes")
    col.rule("A1", "documented arithmetic functions/predicates exist in the dispatch table / builtin registry")
    col.rule("A2", "duplicate dispatch keys carry identical implementations")
    col.rule("A3", "implementation meaning vs frozen Yap/SWI semantics table")
    col.rule("A5", "call-mode tables are consistent with the argument tuples and the mode tests")
    col.rule("A6", "no ==/!= between a term parameter and a Python string")
    col.rule("A7", "arithmetic comparison builtins use the matching operator in argument order")
    documented, final = rule_a1(repo, col)
    rule_a2(repo, col)
    rule_a3(repo, col, documented, final)
    rule_a5(repo, col)
    rule_a6(repo, col)
    rule_a7(repo, col)
    rule_a8(repo, col)
    rule_a9(repo, col)
    rule_a10(repo, col)
    rule_a11(repo, col)
    rule_a12(repo, col)
    col.rule("A13", "=../2 construction: first element")
    rule_a13(repo, col)
