"""C19 (partial) -- findall/all: the world-splitting in _select_sublist is a partition, and its consumers conjoin both halves."""
import ast

from ..index import AnalysisError, norm, walk_no_nested
from ..astutil import dotted, const_value
from .. import dtable

MOD = "problog.engine_builtin"

EXPLANATION = (
    "Decides the partition clause of C19: every result list of findall/all is reported under the condition 'exactly these solutions are true', so the "
    "conditions of different lists are mutually exclusive and jointly exhaustive; the probabilities themselves are not computed. J1 _select_sublist, "
    "evaluated over the finite domain element in {deterministically true, deterministically false, probabilistic} x choice bit in {0,1}: an element "
    "gets a choice bit exactly when its node is neither TRUE nor FALSE, and distinct elements get distinct consecutive bits; a true element is always "
    "in the list and never negated; a probabilistic element is in the list (with its node) when its bit is set and contributes the NEGATION of its "
    "node when it is not - never both, never neither; elements keep their order (the comprehension ranges over range(0, len) ascending); J2 the "
    "enumeration visits every bit pattern once: n starts at (1 << x) - 1, the loop runs while n >= 0, each iteration yields once and decrements n by "
    "one; J3 each yield carries the selected terms and the conjunction of the selected nodes AND the negated unselected nodes; J4 both consumers "
    "(_builtin_findall_base, _builtin_all) conjoin exactly that tuple with target.add_and, drop a combination only when the conjunction is false "
    "(None), build the list from the selected terms in order, and report it with that node; all/3 additionally skips the empty list unless "
    "allow_none is set (every reporting path of all/3 has established a non-empty list or allow_none), and all_or_none sets it; J5 "
    "LogicFormula.copy_node, with which findall/3 moves proof branches into the caller's formula, returns the negation of the copied node for a negative literal "
    "and the copy itself for a positive one, for atoms, conjunctions and disjunctions alike."
    " Added after seed round 8: J6 enumerate_branches extends its ancestors by value for each recursive call."
)
TECHNIQUE = "static analysis: finite-domain evaluation of the selection conditions (constant folding under scenarios), enumeration-shape and consumer wiring rules"
LEVEL_TEXT = EXPLANATION


def _cond_of(comp):
    """the single `if` of a one-generator comprehension over range(0, ln) / range(ln)"""
    if not isinstance(comp, (ast.ListComp, ast.GeneratorExp)) or len(comp.generators) != 1:
        return None
    g = comp.generators[0]
    if len(g.ifs) != 1 or not isinstance(g.target, ast.Name):
        return None
    return g.target.id, g.iter, g.ifs[0], comp.elt


def rule_j1_j3(repo, col):
    f = repo.func(MOD, "_select_sublist")
    m = f.module
    lst, target = f.params[0], f.params[1]
    # length alias
    ln = None
    for st in f.node.body:
        if isinstance(st, ast.Assign) and isinstance(st.targets[0], ast.Name) and norm(st.value) == "len(%s)" % lst:
            ln = st.targets[0].id
    ranges = ["range(0, len(%s))" % lst, "range(len(%s))" % lst] + (["range(0, %s)" % ln, "range(%s)" % ln] if ln else [])
    # choice bit assignment loop
    bits = None
    counter = None
    for st in f.node.body:
        if isinstance(st, ast.For) and norm(st.iter) in ranges and isinstance(st.target, ast.Name):
            i = st.target.id
            paths = dtable.extract_block(st.body, opaque_loops=True)
            rows = {}
            for kind, val in (("true", 0), ("false", None), ("prob", 7)):
                mapping = [("%s[%s][1]" % (lst, i), val), ("%s.TRUE" % target, 0), ("%s.FALSE" % target, None)]
                ps = dtable.feasible(paths, mapping)
                if len(ps) != 1:
                    raise AnalysisError("_select_sublist: %d paths of the choice-bit loop for a %s element" % (len(ps), kind))
                p = ps[0]
                st_ = [a for fn, a, _ in p.calls if fn == "<store>"]
                rows[kind] = (st_, dict(p.env))
            for kind in ("true", "false"):
                col.decide("J1", m, st, not rows[kind][0], "a deterministically %s element gets no choice bit" % kind,
                           "_select_sublist assigns a choice bit to a deterministically %s element: the enumeration then produces the same list twice with "
                           "contradictory conditions" % kind, construct="choice bits: %s element" % kind, function="_select_sublist")
            stp, envp = rows["prob"]
            okp = len(stp) == 1
            if okp:
                mm = stp[0][0]
                bits = mm.split("[")[0]
                counter = stp[0][1]
                okp = mm == "%s[%s]" % (bits, i) and counter.isidentifier() and envp.get(counter, "").replace(" ", "") in ("(%s)+(1)" % counter, "%s+1" % counter)
            col.decide("J1", m, st, okp, "a probabilistic element gets the next free choice bit",
                       "_select_sublist must give every probabilistic element its own bit: bits[i] = x; x += 1 (found stores %s, counter update %s)" % (stp, envp.get(counter) if counter else None),
                       construct="choice bits: probabilistic element", function="_select_sublist")
            break
    if bits is None or counter is None:
        raise AnalysisError("_select_sublist: choice-bit loop not found")
    # enumeration
    loops = [st for st in f.node.body if isinstance(st, ast.While)]
    if len(loops) != 1:
        raise AnalysisError("_select_sublist: enumeration loop not found")
    wl = loops[0]
    if not (isinstance(wl.test, ast.Compare) and isinstance(wl.test.left, ast.Name)):
        raise AnalysisError("_select_sublist: enumeration test not understood: %s" % norm(wl.test))
    nvar = wl.test.left.id
    inits = [st for st in f.node.body if isinstance(st, ast.Assign) and norm(st.targets[0]) == nvar]
    okinit = len(inits) == 1
    if okinit:
        for x in (0, 1, 2, 5):
            okf, v = const_value(inits[0].value, {counter: x})
            okinit = okinit and okf and v == (1 << x) - 1
    col.decide("J2", m, inits[0] if inits else wl, okinit, "the enumeration starts at the all-ones pattern 2^x - 1",
               "_select_sublist must start the enumeration at (1 << x) - 1 for x choice bits: otherwise some combinations of solutions are never reported",
               **({} if inits else {"construct": "enumeration start", "function": "_select_sublist"}))
    oktest = False
    for nv, want in ((0, True), (-1, False), (3, True)):
        okf, v = const_value(wl.test, {nvar: nv})
        if not okf:
            raise AnalysisError("_select_sublist: enumeration test not foldable")
        oktest = (v == want) if nv == 0 else (oktest and v == want)
    col.decide("J2", m, wl.test, oktest, "the enumeration runs down to pattern 0 inclusive", "the enumeration must run while n >= 0: the pattern 0 (no probabilistic solution true) must be reported too")
    yields = [n for n in ast.walk(wl) if isinstance(n, ast.Yield)]
    top_yields = [st for st in wl.body if isinstance(st, ast.Expr) and isinstance(st.value, ast.Yield)]
    decs = [st for st in wl.body if isinstance(st, ast.AugAssign) and norm(st.target) == nvar]
    jumps = [n for n in ast.walk(wl) if isinstance(n, (ast.Continue, ast.Break, ast.Return))]
    okd = len(decs) == 1 and isinstance(decs[0].op, ast.Sub) and const_value(decs[0].value) == (True, 1)
    col.decide("J2", m, wl, len(yields) == 1 and len(top_yields) == 1 and okd and not jumps, "every pattern is yielded exactly once",
               "each iteration of the enumeration must yield exactly once and decrement the pattern by one (found %d yields, %d decrements, %d jumps)" % (len(yields), len(decs), len(jumps)),
               construct="enumeration body", function="_select_sublist")
    if len(top_yields) != 1:
        return
    # the two comprehensions
    assigned = {}
    for st in wl.body:
        if isinstance(st, ast.Assign) and isinstance(st.targets[0], ast.Name):
            v = st.value
            if isinstance(v, ast.Call) and dotted(v.func) in ("tuple", "list") and len(v.args) == 1:
                v = v.args[0]
            c = _cond_of(v)
            if c is not None:
                assigned[st.targets[0].id] = (c, st)
            elif isinstance(v, ast.Name) and v.id in assigned:
                assigned[st.targets[0].id] = assigned[v.id]  # tuple(<selection>) / alias
        # the same selection written as a loop: for i in range(..): if COND: NAME.append(ELT)
        if isinstance(st, ast.For) and isinstance(st.target, ast.Name) and len(st.body) == 1 and isinstance(st.body[0], ast.If) and not st.body[0].orelse and not st.orelse \
                and len(st.body[0].body) == 1 and isinstance(st.body[0].body[0], ast.Expr) and isinstance(st.body[0].body[0].value, ast.Call):
            call = st.body[0].body[0].value
            if isinstance(call.func, ast.Attribute) and call.func.attr == "append" and isinstance(call.func.value, ast.Name) and len(call.args) == 1:
                name = call.func.value.id
                # the accumulator must start empty in this iteration of the enumeration
                init = [x for x in wl.body if isinstance(x, ast.Assign) and norm(x.targets[0]) == name and x.lineno < st.lineno]
                if len(init) == 1 and norm(init[0].value) in ("[]", "list()"):
                    assigned[name] = ((st.target.id, st.iter, st.body[0].test, call.args[0]), st)
    pos = neg = None
    for name, (c, st) in assigned.items():
        i, it, cond, elt = c
        if norm(elt) == "%s[%s]" % (lst, i):
            pos = (name, c, st)
        elif norm(elt) == "%s.negate(%s[%s][1])" % (target, lst, i):
            neg = (name, c, st)
    if pos is None or neg is None:
        raise AnalysisError("_select_sublist: the selected / negated comprehensions not found (%s)" % sorted(assigned))
    for (name, c, st) in (pos, neg):
        col.decide("J1", m, st, norm(c[1]) in ranges, "%s ranges over all positions in ascending order" % name,
                   "%s must range over range(0, len(%s)) so that every element is classified and the list keeps the order of the solutions; found %s" % (name, lst, norm(c[1])))

    def member(c, kind, bit):
        i, it, cond, elt = c
        val = {"true": 0, "false": None, "prob": 7}[kind]
        mapping = [("%s[%s][1]" % (lst, i), val), ("%s.TRUE" % target, 0), ("%s.FALSE" % target, None), ("%s[%s]" % (bits, i), None if kind != "prob" else 0), (nvar, bit)]
        src = norm(cond)
        v = dtable.eval_atom(src, mapping, default=None)
        if v is None:
            raise AnalysisError("_select_sublist: selection condition not decidable for a %s element: %s" % (kind, src))
        return v

    table = [("true", 0, True, False), ("true", 1, True, False), ("prob", 1, True, False), ("prob", 0, False, True), ("false", 0, False, None), ("false", 1, False, None)]
    for kind, bit, want_pos, want_neg in table:
        gp = member(pos[1], kind, bit)
        gn = member(neg[1], kind, bit)
        ok = gp == want_pos and (want_neg is None or gn == want_neg)
        col.decide("J1", m, pos[2] if gp != want_pos else neg[2], ok,
                   "%s element, bit %d: %s" % (kind, bit, "selected" if want_pos else ("negated" if want_neg else "not selected")),
                   "_select_sublist classifies a %s element with choice bit %d as selected=%s / negated=%s; it must be selected=%s / negated=%s: the conditions of different result "
                   "lists must be mutually exclusive and cover every world" % (kind if kind != "prob" else "probabilistic", bit, gp, gn, want_pos, "either" if want_neg is None else want_neg),
                   construct="partition: %s element, bit %d" % (kind, bit), function="_select_sublist")
    # J3: the yield carries terms and nodes + negated + (TRUE,)
    y = top_yields[0].value.value
    oky = False
    why = norm(y) if y is not None else "nothing"
    if isinstance(y, ast.Tuple) and len(y.elts) == 2:
        # terms, nodes = zip(*sublist)
        unz = None
        for n in ast.walk(wl):
            if isinstance(n, ast.Assign) and isinstance(n.targets[0], ast.Tuple) and len(n.targets[0].elts) == 2 and norm(n.value) == "zip(*%s)" % pos[0]:
                unz = [norm(x) for x in n.targets[0].elts]
        if unz is None:
            raise AnalysisError("_select_sublist: terms, nodes = zip(*%s) not found" % pos[0])
        parts = []

        def flat(e):
            if isinstance(e, ast.BinOp) and isinstance(e.op, ast.Add):
                flat(e.left)
                flat(e.right)
            else:
                parts.append(norm(e))

        flat(y.elts[1])
        oky = norm(y.elts[0]) == unz[0] and unz[1] in parts and neg[0] in parts and all(p_ in (unz[1], neg[0], "(0,)", "(%s.TRUE,)" % target) for p_ in parts)
    col.decide("J3", m, top_yields[0], oky, "each combination carries the selected terms and the conjunction selected nodes + negated unselected nodes",
               "_select_sublist must yield (terms, nodes + %s + (0,)): without the negated nodes the condition of a list also holds in worlds where more solutions are true; found %s" % (neg[0], why))


def rule_j4(repo, col):
    for fname in ("_builtin_findall_base", "_builtin_all"):
        f = repo.func(MOD, fname)
        m = f.module
        loops = [n for n in walk_no_nested(f.node) if isinstance(n, ast.For) and isinstance(n.iter, ast.Call) and dotted(n.iter.func) == "_select_sublist"]
        if len(loops) != 1:
            raise AnalysisError("%s: loop over _select_sublist not found" % fname)
        lp = loops[0]
        if not (isinstance(lp.target, ast.Tuple) and len(lp.target.elts) == 2 and all(isinstance(x, ast.Name) for x in lp.target.elts)):
            raise AnalysisError("%s: loop target not understood" % fname)
        lv, nv = [x.id for x in lp.target.elts]
        col.decide("J4", m, lp.iter, len(lp.iter.args) == 2 and norm(lp.iter.args[1]) == "target", "the split is computed against the caller's formula",
                   "%s must split the solutions against `target` (the formula that holds their nodes)" % fname, function=fname)
        paths = dtable.extract_block(lp.body, opaque_loops=True)
        n_out = 0
        for p in paths:
            cd = dict((s_, t) for s_, t, _ in p.conds)
            outs = [a for fn, a, _ in p.calls if fn == "output.append"]
            conj = [a for fn, a, _ in p.calls if fn == "target.add_and"]
            skipped_empty = cd.get(lv) is False and cd.get("allow_none") is False
            if fname == "_builtin_all" and skipped_empty:
                col.decide("J4", m, lp, not outs and p.end in ("continue", "fall"), "all/3 skips the empty list", "all/3 must not report the empty list", construct="%s: empty list" % fname, function=fname)
                continue
            if not conj and p.end == "continue" and not outs and set(cd) <= {lv, "allow_none"}:
                col.fail("J4", m, lp, "%s skips a combination under the condition %s: only the empty list of all/3 (without allow_none) may be skipped; every other combination "
                         "of solutions is a set of worlds that must be reported" % (fname, sorted(cd.items())), construct="%s: skipped combination" % fname, function=fname)
                continue
            if not conj:
                raise AnalysisError("%s: a path through the loop does not build the conjunction" % fname)
            okc = conj == [[nv]]
            nodeexpr = "target.add_and(%s)" % conj[0][0]
            isnone = cd.get("%s is None" % nodeexpr)
            if isnone is True:
                col.decide("J4", m, lp, not outs, "an impossible combination (conjunction FALSE) is dropped", "%s reports a combination whose condition is FALSE" % fname,
                           construct="%s: impossible combination" % fname, function=fname)
                continue
            if any(s_.startswith("<except") and t for s_, t in cd.items()):
                continue
            if not outs:
                raise AnalysisError("%s: a feasible path reports nothing (conditions %s)" % (fname, sorted(cd)))
            n_out += 1
            if fname == "_builtin_all":
                col.decide("J4", m, lp, cd.get(lv) is True or cd.get("allow_none") is True, "all/3 reports a list only when it is non-empty (or allow_none)",
                           "all/3 can report the empty list: a combination is reported on a path that established neither a non-empty list nor allow_none (conditions %s); "
                           "the worlds in which the goal has no solution must make all/3 fail" % sorted((k, v) for k, v in cd.items() if not k.startswith("target.add_and")),
                           construct="_builtin_all: empty list guard (%s)" % ", ".join("%s=%s" % kv for kv in sorted(cd.items()) if not kv[0].startswith("target.add_and")), function=fname)
            o = outs[0][0]
            # ((pattern, goal, <list>), node)
            oko = o.endswith(", %s)" % nodeexpr) and ("build_list(%s, Term('[]'))" % lv) in o
            col.decide("J4", m, lp, okc and oko and len(outs) == 1, "each combination is reported once: list of the selected terms, conjunction of its condition",
                       "%s must report ((pattern, goal, build_list(%s, [])), target.add_and(%s)) once per combination; found %s with conjunction %s" % (fname, lv, nv, o, conj),
                       construct="%s: report (%s)" % (fname, ", ".join("%s=%s" % kv for kv in sorted(cd.items()) if not kv[0].startswith("target.add_and"))), function=fname)
        if n_out < 2:
            raise AnalysisError("%s: reporting paths not found" % fname)
    # all_or_none sets allow_none
    f = repo.func(MOD, "_builtin_all_or_none")
    calls = [n for n in walk_no_nested(f.node) if isinstance(n, ast.Call) and dotted(n.func) == "_builtin_all"]
    ok = len(calls) == 1 and any(k.arg == "allow_none" and isinstance(k.value, ast.Constant) and k.value.value is True for k in calls[0].keywords)
    col.decide("J4", f.module, calls[0] if calls else f.node, ok, "all_or_none/3 reports the empty list", "_builtin_all_or_none must call _builtin_all(..., allow_none=True)",
               **({} if calls else {"construct": "def _builtin_all_or_none", "function": "_builtin_all_or_none"}))


def rule_j5(repo, col):
    """LogicFormula.copy_node (used by findall/3 to move proof branches into the caller's formula) keeps the sign of the copied literal for every node type"""
    f = repo.func("problog.formula", "LogicFormula.copy_node")
    m = f.module
    target, index = f.params[1], f.params[2]
    paths = dtable.extract(f.node, opaque_loops=True)
    kinds_src = set()
    for p in paths:
        for s_, _, _ in p.conds:
            if s_.endswith("== 'atom'") or s_.endswith("== 'conj'") or s_.endswith("== 'disj'"):
                kinds_src.add(s_.rsplit(" == ", 1)[0])
    if len(kinds_src) != 1:
        raise AnalysisError("copy_node: node-type dispatch not found (%s)" % sorted(kinds_src))
    ksrc = kinds_src.pop()
    n = 0
    for kind in ("atom", "conj", "disj"):
        for lit in (5, -5):
            mapping = [(ksrc, kind), (index, lit), ("self.is_true(%s)" % index, False), ("self.is_false(%s)" % index, False)]
            ps = [p for p in dtable.compatible(paths, mapping) if p.end == "return"]
            ps = [p for p in ps if all(dtable.eval_atom(s_, mapping, None) is not None for s_, _, _ in p.conds)]
            if len(ps) != 1:
                raise AnalysisError("copy_node: %d decided paths for a %s %s node" % (len(ps), "negated" if lit < 0 else "positive", kind))
            v = ps[0].value or ""
            negated = v.startswith("%s.negate(" % target)
            n += 1
            col.decide("J5", m, f.node, negated == (lit < 0), "a %s %s node is copied %s" % ("negated" if lit < 0 else "positive", kind, "and negated" if lit < 0 else "as it is"),
                       "copy_node returns %s for a %s %s node: the copy of a negated literal must be %s.negate(<copy of the node>) for every node type - a proof branch that contains a "
                       "negated derived atom otherwise enters the findall result with the negation lost" % (v[:70], "negated" if lit < 0 else "positive", kind, target),
                       construct="copy_node: %s %s" % ("negated" if lit < 0 else "positive", kind), function="LogicFormula.copy_node")
    col.floor("J5.copy_cases", n, 6)


def rule_j6(repo, col):
    """LogicFormula.enumerate_branches: the set of ancestors is local to the path (extended by value for each recursive call), never a shared object that sibling branches mutate -
    otherwise a sub-goal reached twice through different parents is taken for a cycle and its condition disappears from the branch"""
    f = repo.func("problog.formula", "LogicFormula.enumerate_branches")
    m = f.module
    cand = [p_ for p_ in f.params[2:]]
    rec = [c for c in ast.walk(f.node) if isinstance(c, ast.Call) and isinstance(c.func, ast.Attribute) and c.func.attr == "enumerate_branches"]
    if not rec or not cand:
        raise AnalysisError("enumerate_branches: recursion / ancestor parameter not found")
    anc = cand[0]
    muts = [c for c in ast.walk(f.node) if isinstance(c, ast.Call) and isinstance(c.func, ast.Attribute) and isinstance(c.func.value, ast.Name) and c.func.value.id == anc
            and c.func.attr in ("add", "append", "update", "extend", "discard", "remove", "pop")]
    passed = []
    for c in rec:
        for k in c.keywords:
            if k.arg == anc:
                passed.append(k.value)
        if len(c.args) >= 2:
            passed.append(c.args[1])
    if len(passed) != len(rec):
        raise AnalysisError("enumerate_branches: ancestor argument of a recursive call not found")
    by_value = all(isinstance(v, ast.BinOp) and isinstance(v.op, (ast.Add, ast.BitOr)) and anc in norm(v) for v in passed)
    col.decide("J6", m, muts[0] if muts else rec[0], by_value and not muts, "the ancestors of a branch are extended by value for every recursive call",
               "enumerate_branches %s: the ancestor collection must be path-local (anc + (index,)) - a shared, mutated collection marks every node visited anywhere before as an "
               "ancestor, so a rule-defined sub-goal used twice in one proof is cut as a cycle and the branch loses its condition (findall list probabilities change)"
               % ("mutates `%s` in place (%s)" % (anc, norm(muts[0])) if muts else "passes %s to the recursive call" % norm(passed[0])),
               construct="enumerate_branches: shared ancestor collection", function="LogicFormula.enumerate_branches")


def run(repo, col):
    col.rule("J1", "partition table of _select_sublist (element kind x choice bit)")
    col.rule("J2", "every bit pattern is enumerated exactly once")
    col.rule("J3", "a combination carries selected nodes and negated unselected nodes")
    col.rule("J4", "consumers conjoin the condition, drop only impossible combinations, report list + node")
    rule_j1_j3(repo, col)
    rule_j4(repo, col)
    col.rule("J5", "copy_node keeps the sign of the copied literal")
    rule_j5(repo, col)
    col.rule("J6", "enumerate_branches: path-local ancestors")
    rule_j6(repo, col)
