"""Extraction of the transformation graph (@transform decorators, transform_create_as calls) and the evaluatable registry."""
import ast

from .index import AnalysisError, ClassInfo, norm, walk_no_nested
from .astutil import dotted


class Transform(object):
    __slots__ = ("src", "dst", "func", "module", "node", "kind")

    def __init__(self, src, dst, func, module, node, kind):
        self.src = src  # ClassInfo or str
        self.dst = dst
        self.func = func  # FunctionInfo or None
        self.module = module
        self.node = node
        self.kind = kind  # 'function' | 'create_as'

    @property
    def src_name(self):
        return self.src.name if isinstance(self.src, ClassInfo) else str(self.src)

    @property
    def dst_name(self):
        return self.dst.name if isinstance(self.dst, ClassInfo) else str(self.dst)


def _cls(repo, module, expr):
    r = repo.resolve_expr(module, expr)
    if r is not None and r[0] == "class":
        return r[1]
    return norm(expr)


def transforms(repo):
    out = []
    for m in repo.modules.values():
        for node in ast.walk(m.tree):
            if isinstance(node, (ast.FunctionDef,)):
                for d in node.decorator_list:
                    if isinstance(d, ast.Call) and dotted(d.func) in ("transform", "core.transform") and len(d.args) == 2:
                        f = m.functions.get(node.name)
                        out.append(Transform(_cls(repo, m, d.args[0]), _cls(repo, m, d.args[1]), f, m, node, "function"))
            elif isinstance(node, ast.Expr) and isinstance(node.value, ast.Call) and dotted(node.value.func) in ("transform", "core.transform") and len(node.value.args) == 3:
                c = node.value
                r = repo.resolve_expr(m, c.args[2])
                f = r[1] if r is not None and r[0] == "func" else None
                out.append(Transform(_cls(repo, m, c.args[0]), _cls(repo, m, c.args[1]), f, m, c, "function"))
            elif isinstance(node, ast.Call) and dotted(node.func) in ("transform_create_as", "core.transform_create_as") and len(node.args) == 2:
                out.append(Transform(_cls(repo, m, node.args[1]), _cls(repo, m, node.args[0]), None, m, node, "create_as"))
    if len(out) < 14:
        raise AnalysisError("only %d transformations extracted (floor 14)" % len(out))
    return out


def evaluatables(repo):
    """name -> ClassInfo from problog/__init__.py's _evaluatables dict literal"""
    m = repo.module("problog")
    d = None
    for st in m.tree.body:
        if isinstance(st, (ast.Assign, ast.AnnAssign)):
            tgt = st.targets[0] if isinstance(st, ast.Assign) else st.target
            if isinstance(tgt, ast.Name) and tgt.id == "_evaluatables" and isinstance(st.value, ast.Dict):
                d = st.value
    if d is None:
        raise AnalysisError("problog/__init__.py: _evaluatables dict literal not found")
    out = {}
    for k, v in zip(d.keys, d.values):
        if not isinstance(k, ast.Constant):
            raise AnalysisError("_evaluatables: non-literal key")
        r = repo.resolve_expr(m, v)
        out[k.value] = (r[1] if r is not None and r[0] == "class" else None, v)
    return out, m
