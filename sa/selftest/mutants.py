"""Checker self-validation (thorough tier): every rule must fire on a scratch copy with one instance broken.

A mutant is a textual edit (old -> new, `old` occurring exactly once) of one file.  It is applied to a scratch tree that
symlinks every other file of /repo, byte-compiled with compile() (syntax only -- nothing is executed), analysed with the same
rule module, and deleted.  The rule named by the mutant must report a violation that is not a known finding; the report must
name the expected function.  Mutants whose `old` text no longer occurs (the repository changed) are counted as 'stale' and do
not fail the run unless more than half of a property's mutants are stale.
"""
import importlib
import multiprocessing
import os
import shutil
import sys
import tempfile

from ..index import Repo, AnalysisError
from .. import report
from .catalog import MUTANTS


def make_scratch(root, relfile, new_src):
    tmp = tempfile.mkdtemp(prefix="sa_mut_")
    for top in ("problog", "docs"):
        src_top = os.path.join(root, top)
        if not os.path.isdir(src_top):
            continue
        for dirpath, dirnames, filenames in os.walk(src_top):
            dirnames[:] = [d for d in dirnames if d != "__pycache__"]
            rel = os.path.relpath(dirpath, root)
            os.makedirs(os.path.join(tmp, rel), exist_ok=True)
            for fn in filenames:
                if fn.endswith(".pyc"):
                    continue
                dst = os.path.join(tmp, rel, fn)
                if os.path.normpath(os.path.join(rel, fn)) == os.path.normpath(relfile):
                    with open(dst, "w", encoding="utf-8") as f:
                        f.write(new_src)
                else:
                    os.symlink(os.path.join(dirpath, fn), dst)
    return tmp


def run_one(args):
    prop, mut, root = args
    name, relfile, old, new, rule, where = mut
    path = os.path.join(root, relfile)
    try:
        with open(path, encoding="utf-8") as f:
            src = f.read()
    except OSError:
        return (name, "stale", "file missing")
    if src.count(old) != 1:
        return (name, "stale", "anchor text occurs %d times" % src.count(old))
    new_src = src.replace(old, new)
    if relfile.endswith(".py"):
        try:
            compile(new_src, relfile, "exec")
        except SyntaxError as e:
            return (name, "broken", "mutant does not compile: %s" % e)
    tmp = make_scratch(root, relfile, new_src)
    try:
        mod = importlib.import_module("sa.rules.%s" % prop.lower())
        try:
            repo = Repo(tmp)
            col = report.Collector(prop, repo, thorough=False)
            mod.run(repo, col)
        except AnalysisError as e:
            return (name, "analysis-error", str(e))
        known = report.load_known()
        kset = set(report.known_key(e) for e in known.get("known", []))
        fails = [o for o in col.obligations if not o.ok and not o.advisory and o.key(prop) not in kset]
        hits = [o for o in fails if o.rule == rule and (where is None or where in o.function or where in o.construct)]
        if hits:
            o = hits[0]
            return (name, "detected", "%s %s:%d %s -- %s" % (o.rule, o.relpath, o.line, o.function, o.reason[:140]))
        if fails:
            o = fails[0]
            return (name, "other-rule", "expected %s at %s; got %s at %s: %s" % (rule, where, o.rule, o.function, o.reason[:100]))
        return (name, "missed", "no violation reported")
    finally:
        shutil.rmtree(tmp, ignore_errors=True)


def run_for(prop, col, root="/repo", jobs=16):
    muts = MUTANTS.get(prop, [])
    if not muts:
        col.note("no self-test mutants registered for %s" % prop)
        return
    args = [(prop, m, root) for m in muts]
    if jobs > 1 and len(args) > 1:
        with multiprocessing.Pool(min(jobs, len(args))) as pool:
            results = pool.map(run_one, args)
    else:
        results = [run_one(a) for a in args]
    stale = 0
    bad = []
    for (name, status, detail), m in zip(results, muts):
        if status == "detected":
            col.ok("SELFTEST", "problog", None, "mutant detected: %s" % detail, construct="mutant %s" % name, function=m[1])
        elif status == "stale":
            stale += 1
            col.note("self-test mutant %s is stale (%s)" % (name, detail))
        else:
            bad.append("%s: %s (%s)" % (name, status, detail))
    col.count("selftest.mutants", len(muts))
    col.count("selftest.detected", len([r for r in results if r[1] == "detected"]))
    col.count("selftest.stale", stale)
    if bad:
        raise AnalysisError("checker self-test failed for %s: %s" % (prop, "; ".join(bad)))
    if stale * 2 > len(muts):
        raise AnalysisError("more than half of the self-test mutants of %s are stale (%d of %d): the catalog no longer matches the repository" % (prop, stale, len(muts)))


def main(argv):
    """python -m sa.selftest.mutants [Cxx ...]  -- run the catalog and print one line per mutant"""
    props = argv or sorted(MUTANTS)
    rc = 0
    for prop in props:
        args = [(prop, m, "/repo") for m in MUTANTS.get(prop, [])]
        with multiprocessing.Pool(16) as pool:
            results = pool.map(run_one, args)
        for name, status, detail in results:
            print("%s %-34s %-14s %s" % (prop, name, status, detail[:200]))
            if status not in ("detected", "stale"):
                rc = 1
    return rc


if __name__ == "__main__":
    sys.path.insert(0, os.path.dirname(os.path.dirname(os.path.dirname(os.path.abspath(__file__)))))
    sys.exit(main(sys.argv[1:]))
