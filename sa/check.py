#!/venv/bin/python
"""CLI: check.py <Cxx> [--thorough] [--root DIR] [--explain FILE] [--evidence-dir DIR]

Static analysis only: parses the tree under --root (default /repo), never imports or runs it.
exit 0 = all obligations discharged (or only known findings); 1 = VIOLATION; 2 = ANALYSIS-ERROR.
"""
import importlib
import json
import os
import sys
import time
import traceback

HERE = os.path.dirname(os.path.abspath(__file__))
sys.path.insert(0, os.path.dirname(HERE))

from sa import report  # noqa: E402
from sa.index import Repo, AnalysisError  # noqa: E402


def main(argv):
    t0 = time.time()
    args = list(argv)
    thorough = False
    root = "/repo"
    explain = None
    if os.environ.get("VERIF_TIER") == "thorough":
        thorough = True
    props = []
    i = 0
    while i < len(args):
        a = args[i]
        if a == "--thorough":
            thorough = True
        elif a == "--root":
            i += 1
            root = args[i]
        elif a == "--explain":
            i += 1
            explain = args[i]
        elif a == "--evidence-dir":
            i += 1
            report.EVIDENCE_DIR = os.path.abspath(args[i])
        elif a == "--known":
            i += 1
            report.KNOWN_FINDINGS = os.path.abspath(args[i])
        else:
            props.append(a)
        i += 1
    if len(props) != 1:
        print(__doc__)
        return 2
    prop = props[0]
    if explain:
        with open(explain) as f:
            d = json.load(f)
        print(json.dumps(d, indent=1))
        print(
            "%s:%s %s — rule %s — %s — %s"
            % (d.get("file"), d.get("line"), d.get("function"), d.get("rule"), d.get("construct"), d.get("reason"))
        )
        print("re-run: /venv/bin/python /verif/sa/check.py %s" % prop)
        return 0
    try:
        seed = int(os.environ.get("VERIF_SEED", "0"))
    except ValueError:
        seed = 0
    try:
        mod = importlib.import_module("sa.rules.%s" % prop.lower())
    except ImportError as e:
        print("ANALYSIS-ERROR: no rule module for %s (%s)" % (prop, e))
        return 2
    try:
        repo = Repo(root)
        col = report.Collector(prop, repo, thorough=thorough)
        mod.run(repo, col)
        if thorough and hasattr(mod, "run_thorough"):
            mod.run_thorough(repo, col)
        if thorough and root == "/repo":
            from sa.selftest import mutants

            mutants.run_for(prop, col)
        code = report.finish(
            col,
            t0,
            "thorough" if thorough else "quick",
            mod.EXPLANATION,
            list(getattr(mod, "ASSUMPTIONS", [])) + COMMON_ASSUMPTIONS,
            seed=seed,
        )
        return code
    except AnalysisError as e:
        print("ANALYSIS-ERROR: property=%s %s" % (prop, e))
        return 2
    except Exception:  # tracebacks must not look like violations
        traceback.print_exc()
        print("ANALYSIS-ERROR: property=%s internal error in the checker (see traceback)" % prop)
        return 2


COMMON_ASSUMPTIONS = [
    "CPython's ast parser is trusted; nothing under the analysed root is imported or executed",
    "Python dynamism (monkey-patching, setattr, **kwargs plumbing) is outside the model",
    "a pass decides the named structural clauses (necessary conditions), not the behavioural property itself",
]

if __name__ == "__main__":
    sys.exit(main(sys.argv[1:]))
