"""Extraction of the registered builtin predicates from problog/engine_builtin.py (read from the code)."""
import ast

from .index import AnalysisError, norm

MOD = "problog.engine_builtin"
DECOS = {"builtin_boolean": "b", "builtin_simple": "s", "builtin_probabilistic": "sp", "builtin_raw": None}


class BuiltinRow(object):
    __slots__ = ("name", "arity", "wrapper", "funcname", "node", "func", "loop")

    def __init__(self, name, arity, wrapper, funcname, node, func, loop=False):
        self.name = name
        self.arity = arity  # int or None (registered in a loop over arities)
        self.wrapper = wrapper  # 'b' / 's' / 'sp' / None (raw)
        self.funcname = funcname
        self.node = node
        self.func = func
        self.loop = loop

    def __repr__(self):
        return "<builtin %s/%s -> %s(%s)>" % (self.name, self.arity, self.wrapper, self.funcname)


class LateBinding(AnalysisError):
    """a builtin registered inside a loop with a lambda that reads the loop variable when it is CALLED (all registrations share the last value)"""

    def __init__(self, node, loopvars, lam):
        AnalysisError.__init__(self, "add_builtin in a loop with a lambda closing over the loop variable(s) %s at line %d" % (sorted(loopvars), node.lineno))
        self.node = node
        self.loopvars = loopvars
        self.lam = lam


def _late_binding(fnode, call):
    """(loop variables, lambda) when `call` sits in a for loop and one of its lambdas reads a loop target as a free variable"""
    parents = {}
    for p_ in ast.walk(fnode):
        for ch in ast.iter_child_nodes(p_):
            parents[ch] = p_
    targets = set()
    cur = parents.get(call)
    while cur is not None:
        if isinstance(cur, ast.For):
            targets |= {x.id for x in ast.walk(cur.target) if isinstance(x, ast.Name)}
        cur = parents.get(cur)
    if not targets:
        return None
    for lam in [x for x in ast.walk(call) if isinstance(x, ast.Lambda)]:
        bound = {a.arg for a in lam.args.args + lam.args.kwonlyargs} | ({lam.args.vararg.arg} if lam.args.vararg else set()) | ({lam.args.kwarg.arg} if lam.args.kwarg else set())
        free = {x.id for x in ast.walk(lam.body) if isinstance(x, ast.Name) and isinstance(x.ctx, ast.Load)} - bound
        if free & targets:
            return free & targets, lam
    return None


def registry(repo):
    m = repo.module(MOD)
    f = repo.func(MOD, "add_standard_builtins")
    rows = []
    for node in ast.walk(f.node):
        if isinstance(node, ast.Call) and isinstance(node.func, ast.Attribute) and node.func.attr == "add_builtin" and len(node.args) == 3:
            n, a, impl = node.args
            lb = _late_binding(f.node, node)
            if lb is not None:
                raise LateBinding(node, lb[0], lb[1])
            if not (isinstance(n, ast.Constant) and isinstance(n.value, str)):
                raise AnalysisError("add_builtin with non-literal name at line %d" % node.lineno)
            arity = a.value if isinstance(a, ast.Constant) and isinstance(a.value, int) else None
            wrapper = None
            fn = impl
            if isinstance(impl, ast.Call) and isinstance(impl.func, ast.Name) and impl.func.id in ("b", "s", "sp") and len(impl.args) == 1:
                wrapper = impl.func.id
                fn = impl.args[0]
            if not isinstance(fn, ast.Name):
                raise AnalysisError("add_builtin implementation is not a plain name at line %d: %s" % (node.lineno, norm(impl)))
            func = m.functions.get(fn.id)
            if func is None:
                raise AnalysisError("builtin implementation %s not found (line %d)" % (fn.id, node.lineno))
            rows.append(BuiltinRow(n.value, arity, wrapper, fn.id, node, func, loop=arity is None))
    for fn in m.functions.values():
        for d in fn.node.decorator_list:
            if isinstance(d, ast.Call) and isinstance(d.func, ast.Name) and d.func.id in DECOS:
                if len(d.args) != 2 or not isinstance(d.args[0], ast.Constant):
                    raise AnalysisError("decorator registration shape not understood at line %d" % d.lineno)
                ar = d.args[1].value if isinstance(d.args[1], ast.Constant) else None
                rows.append(BuiltinRow(d.args[0].value, ar, DECOS[d.func.id], fn.name, d, fn))
    if len(rows) < 95:
        raise AnalysisError("only %d builtin registrations extracted (floor 95)" % len(rows))
    return rows


def implementations(repo):
    seen = {}
    for r in registry(repo):
        seen.setdefault(r.funcname, r)
    return seen
