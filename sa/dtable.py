"""Decision-table extraction: enumerate the acyclic paths of a function body (structured walk over the AST, boolean operators and
conditional expressions split into branches), carrying a symbolic environment (name -> normalised expression after substitution),
the atomic branch conditions taken, the calls made and the way the path ends.  Nothing is executed: conditions stay symbolic; a
rule evaluates them over a finite abstract domain (e.g. the orderings of a few keys) to check the table.

Loops are not supported (AnalysisError) unless `allow_loops` treats a loop body as opaque.
"""
import ast
import copy

from .index import AnalysisError, norm


def _fresh_value(src):
    """does the environment entry describe the CONTENT of a freshly built container (display, comprehension, container constructor)?  Such a text
    stops describing the local once the local is mutated; an alias path or the result of an ordinary call keeps denoting the same object."""
    try:
        e = ast.parse(src, mode="eval").body
    except SyntaxError:
        return True
    if isinstance(e, (ast.List, ast.Dict, ast.Set, ast.ListComp, ast.SetComp, ast.DictComp, ast.GeneratorExp)):
        return True
    if isinstance(e, ast.Call) and isinstance(e.func, ast.Name) and e.func.id in ("list", "dict", "set", "deque", "defaultdict", "OrderedDict", "OrderedSet", "sorted", "bytearray"):
        return True
    if isinstance(e, ast.BinOp):
        return True
    return False


def _drop_mutated(env, name):
    v = env.get(name)
    if v is not None and _fresh_value(v):
        env.pop(name, None)


MUTATORS = frozenset(["append", "extend", "insert", "add", "update", "remove", "discard", "pop", "popleft", "appendleft", "clear", "sort", "reverse", "setdefault", "popitem"])


class Path(object):
    __slots__ = ("conds", "env", "calls", "end", "value", "stmts")

    def __init__(self):
        self.conds = []  # (atom source after substitution, truth, original node)
        self.env = {}
        self.calls = []  # (callee source, [arg sources after substitution], node)
        self.end = None  # 'return' | 'raise' | 'fall'
        self.value = None  # returned / raised expression source (substituted)
        self.stmts = []

    def clone(self):
        p = Path()
        p.conds = list(self.conds)
        p.env = dict(self.env)
        p.calls = list(self.calls)
        p.stmts = list(self.stmts)
        return p


class _Subst(ast.NodeTransformer):
    def __init__(self, env):
        self.env = env

    def visit_Name(self, node):
        if isinstance(node.ctx, ast.Load) and node.id in self.env:
            try:
                return ast.parse(self.env[node.id], mode="eval").body
            except SyntaxError:
                return node
        return node


def subst(expr, env):
    if not env:
        return norm(expr)
    e = _Subst(env).visit(copy.deepcopy(expr))
    ast.fix_missing_locations(e)
    return norm(e)


MAX_PATHS = 4000


class Extractor(object):
    def __init__(self, opaque_loops=False):
        self.opaque_loops = opaque_loops
        self.count = 0
        self._lifting = False

    def paths(self, func_node):
        done = []
        live = self._block(func_node.body, [Path()], done)
        for p in live:
            p.end = "fall"
            done.append(p)
        return done

    # a condition is split into atoms: returns (true_paths, false_paths)
    def _cond(self, expr, paths):
        if isinstance(expr, ast.BoolOp):
            if isinstance(expr.op, ast.And):
                falses = []
                cur = paths
                for v in expr.values:
                    t, f = self._cond(v, cur)
                    falses.extend(f)
                    cur = t
                return cur, falses
            trues = []
            cur = paths
            for v in expr.values:
                t, f = self._cond(v, cur)
                trues.extend(t)
                cur = f
            return trues, cur
        if isinstance(expr, ast.UnaryOp) and isinstance(expr.op, ast.Not):
            t, f = self._cond(expr.operand, paths)
            return f, t
        # canonical polarity: `a is not b`, `a != b`, `a not in b` are the negations of `a is b`, `a == b`, `a in b`
        if isinstance(expr, ast.Compare) and len(expr.ops) == 1 and isinstance(expr.ops[0], (ast.IsNot, ast.NotEq, ast.NotIn)):
            pos = {ast.IsNot: ast.Is, ast.NotEq: ast.Eq, ast.NotIn: ast.In}[type(expr.ops[0])]()
            e2 = ast.Compare(left=expr.left, ops=[pos], comparators=expr.comparators)
            ast.copy_location(e2, expr)
            t, f = self._cond(e2, paths)
            return f, t
        ts, fs = [], []
        for p in paths:
            src = subst(expr, p.env)
            folded = _fold_atom(src)
            if folded is None:
                # path consistency: the same atom (same source after substitution) keeps its earlier truth value
                for s0, t0, _ in p.conds:
                    if s0 == src and not _has_call(expr):
                        folded = t0
                        break
            if folded is not False:
                a = p.clone()
                if folded is None:
                    a.conds.append((src, True, expr))
                ts.append(a)
            if folded is not True:
                b = p.clone()
                if folded is None:
                    b.conds.append((src, False, expr))
                fs.append(b)
            self.count += 2
            if self.count > MAX_PATHS * 4:
                raise AnalysisError("decision-table extraction: too many paths")
        return ts, fs

    def _calls_in(self, expr, p):
        mutated = []
        for sub in ast.walk(expr):
            if isinstance(sub, ast.Call):
                p.calls.append((norm(sub.func), [subst(a, p.env) for a in sub.args], sub))
                # a mutator called on a local that the environment maps to an expression: the expression no longer describes it
                if isinstance(sub.func, ast.Attribute) and isinstance(sub.func.value, ast.Name) and sub.func.attr in MUTATORS and sub.func.value.id in p.env:
                    mutated.append(sub.func.value.id)
        for name in mutated:
            _drop_mutated(p.env, name)

    def _assign_value(self, target, value, paths):
        """assign (possibly forking on a conditional expression)"""
        value = _bool_select(value)
        if isinstance(value, ast.IfExp):
            t, f = self._cond(value.test, paths)
            return self._assign_value(target, value.body, t) + self._assign_value(target, value.orelse, f)
        out = []
        for p in paths:
            self._calls_in(value, p)
            if isinstance(target, ast.Name):
                p.env[target.id] = subst(value, p.env)
            elif isinstance(target, (ast.Tuple, ast.List)):
                if isinstance(value, (ast.Tuple, ast.List)) and len(value.elts) == len(target.elts):
                    vals = [subst(v, p.env) for v in value.elts]
                    for t_, v_ in zip(target.elts, vals):
                        if isinstance(t_, ast.Name):
                            p.env[t_.id] = v_
                else:
                    src = subst(value, p.env)
                    for i, t_ in enumerate(target.elts):
                        if isinstance(t_, ast.Name):
                            p.env[t_.id] = "(%s)[%d]" % (src, i)
            else:
                # attribute / subscript store: recorded as an effect
                p.calls.append(("<store>", [subst(target, p.env), subst(value, p.env)], target))
                if isinstance(target, (ast.Subscript, ast.Attribute)) and isinstance(target.value, ast.Name):
                    _drop_mutated(p.env, target.value.id)
            out.append(p)
        return out

    def _block(self, stmts, paths, done):
        for st in stmts:
            if not paths:
                break
            paths = self._stmt(st, paths, done)
            if len(paths) + len(done) > MAX_PATHS:
                raise AnalysisError("decision-table extraction: too many paths")
        return paths

    def _stmt(self, st, paths, done):
        # lift conditional expressions out of simple statements: fork on the test and continue with the chosen branch
        if isinstance(st, (ast.Assign, ast.AugAssign, ast.Expr, ast.Return, ast.Raise)) and not self._lifting:
            ife = None
            for sub in ast.walk(st):
                if isinstance(sub, ast.IfExp):
                    ife = sub
                    break
                if isinstance(sub, (ast.Lambda, ast.ListComp, ast.GeneratorExp, ast.SetComp, ast.DictComp)):
                    pass
            if ife is not None and not _inside_deferred(st, ife):
                t, f = self._cond(ife.test, paths)
                out = []
                for grp, repl in ((t, ife.body), (f, ife.orelse)):
                    if grp:
                        st2 = _replace_node(st, ife, repl)
                        out.extend(self._stmt(st2, grp, done))
                return out
        for p in paths:
            p.stmts.append(st)
        if isinstance(st, (ast.Continue, ast.Break)):
            for p in paths:
                p.end = "continue" if isinstance(st, ast.Continue) else "break"
                done.append(p)
            return []
        if isinstance(st, ast.If):
            t, f = self._cond(st.test, paths)
            return self._block(st.body, t, done) + self._block(st.orelse, f, done)
        if isinstance(st, ast.Return):
            if st.value is not None and isinstance(_bool_select(st.value), ast.IfExp):
                st = ast.copy_location(ast.Return(value=_bool_select(st.value)), st)
                t, f = self._cond(st.value.test, paths)
                for grp, val in ((t, st.value.body), (f, st.value.orelse)):
                    for p in grp:
                        self._calls_in(val, p)
                        p.end = "return"
                        p.value = subst(val, p.env)
                        done.append(p)
                return []
            for p in paths:
                if st.value is not None:
                    self._calls_in(st.value, p)
                p.end = "return"
                p.value = subst(st.value, p.env) if st.value is not None else "None"
                done.append(p)
            return []
        if isinstance(st, ast.Raise):
            for p in paths:
                p.end = "raise"
                p.value = subst(st.exc, p.env) if st.exc is not None else ""
                done.append(p)
            return []
        if isinstance(st, ast.Assign):
            if len(st.targets) != 1:
                out = paths
                for t in st.targets:
                    out = self._assign_value(t, st.value, out)
                return out
            return self._assign_value(st.targets[0], st.value, paths)
        if isinstance(st, ast.AugAssign):
            for p in paths:
                self._calls_in(st.value, p)
                if isinstance(st.target, ast.Name):
                    cur = p.env.get(st.target.id, st.target.id)
                    p.env[st.target.id] = "(%s) %s (%s)" % (cur, _OPS.get(type(st.op), "?"), subst(st.value, p.env))
                else:
                    p.calls.append(("<augstore %s>" % _OPS.get(type(st.op), "?"), [subst(st.target, p.env), subst(st.value, p.env)], st.target))
            return paths
        if isinstance(st, ast.Expr):
            if isinstance(st.value, ast.Constant):
                return paths
            for p in paths:
                self._calls_in(st.value, p)
            return paths
        if isinstance(st, (ast.Pass, ast.Assert, ast.Import, ast.ImportFrom, ast.Global, ast.Nonlocal)):
            return paths
        if isinstance(st, ast.Delete):
            for p in paths:
                for t in st.targets:
                    p.calls.append(("<del>", [subst(t, p.env)], t))
            return paths
        if isinstance(st, (ast.For, ast.While)) and self.opaque_loops:
            for p in paths:
                p.calls.append(("<loop>", [norm(st.iter) if isinstance(st, ast.For) else norm(st.test)], st))
                # names assigned or mutated in the loop become unknown
                for sub in ast.walk(st):
                    if isinstance(sub, ast.Name) and isinstance(sub.ctx, ast.Store):
                        p.env.pop(sub.id, None)
                    elif isinstance(sub, ast.Call) and isinstance(sub.func, ast.Attribute) and isinstance(sub.func.value, ast.Name) and sub.func.attr in MUTATORS:
                        _drop_mutated(p.env, sub.func.value.id)
                    elif isinstance(sub, (ast.Subscript, ast.Attribute)) and isinstance(sub.ctx, (ast.Store, ast.Del)) and isinstance(sub.value, ast.Name):
                        _drop_mutated(p.env, sub.value.id)
            return paths
        if isinstance(st, (ast.With, ast.AsyncWith)):
            for p in paths:
                for it in st.items:
                    self._calls_in(it.context_expr, p)
                    if it.optional_vars is not None:
                        for sub in ast.walk(it.optional_vars):
                            if isinstance(sub, ast.Name):
                                p.env.pop(sub.id, None)
            return self._block(st.body, paths, done)
        if isinstance(st, ast.Try):
            # normal path: body/orelse/finally; each handler: a separate path starting from the state before the try
            before = [p.clone() for p in paths]
            out = self._block(st.body, paths, done)
            out = self._block(st.orelse, out, done)
            for h in st.handlers:
                hp = [p.clone() for p in before]
                for p in hp:
                    p.conds.append(("<except %s>" % (norm(h.type) if h.type is not None else ""), True, h))
                out = out + self._block(h.body, hp, done)
            return self._block(st.finalbody, out, done)
        raise AnalysisError("decision-table extraction: statement kind %s not supported (line %d)" % (type(st).__name__, st.lineno))


_OPS = {ast.Add: "+", ast.Sub: "-", ast.Mult: "*", ast.BitOr: "|", ast.BitAnd: "&", ast.Div: "/"}


def _inside_deferred(root, target):
    """is `target` inside a lambda / comprehension of root (evaluated later or repeatedly: not liftable)?"""
    stack = [(root, False)]
    while stack:
        n, deferred = stack.pop()
        if n is target:
            return deferred
        d2 = deferred or isinstance(n, (ast.Lambda, ast.ListComp, ast.GeneratorExp, ast.SetComp, ast.DictComp))
        for ch in ast.iter_child_nodes(n):
            stack.append((ch, d2))
    return False


class _Repl(ast.NodeTransformer):
    def __init__(self, target, repl):
        self.target = target
        self.repl = repl

    def generic_visit(self, node):
        return super().generic_visit(node)

    def visit(self, node):
        if node is self.target:
            return self.repl
        return super().visit(node)


def _replace_node(st, target, repl):
    """copy of statement st with the node `target` (identity) replaced by `repl`"""
    # mark, deepcopy, replace the marked node
    target._dt_mark = True
    try:
        c = copy.deepcopy(st)
    finally:
        del target._dt_mark
    for parent in ast.walk(c):
        for field, val in ast.iter_fields(parent):
            if isinstance(val, ast.AST) and getattr(val, "_dt_mark", False):
                setattr(parent, field, copy.deepcopy(repl))
            elif isinstance(val, list):
                for i, x in enumerate(val):
                    if isinstance(x, ast.AST) and getattr(x, "_dt_mark", False):
                        val[i] = copy.deepcopy(repl)
    if getattr(c, "_dt_mark", False):
        return c
    ast.fix_missing_locations(c)
    return c


def _has_call(expr):
    """atoms containing calls other than pure builtins are not assumed stable along a path"""
    for sub in ast.walk(expr):
        if isinstance(sub, ast.Call):
            f = sub.func
            if isinstance(f, ast.Name) and f.id in ("len", "isinstance", "type", "abs", "set", "tuple", "map", "str", "int", "float", "min", "max"):
                continue
            return True
    return False


def _fold_atom(src):
    """constant-fold atoms that contain no names (e.g. `None is None`, `1.0 is None`, `False`, `1.0 < 1e-08`)"""
    from .astutil import const_value

    try:
        e = ast.parse(src, mode="eval").body
    except SyntaxError:
        return None
    if any(isinstance(n, (ast.Name, ast.Attribute, ast.Call, ast.Subscript)) for n in ast.walk(e)):
        return None
    ok, v = const_value(e)
    if ok:
        return bool(v)
    return None


def extract(func_node, opaque_loops=False):
    return Extractor(opaque_loops).paths(func_node)


def extract_block(stmts, opaque_loops=False):
    """paths through a statement list (e.g. a loop body); paths that run off the end have end == 'fall'"""
    ex = Extractor(opaque_loops)
    done = []
    live = ex._block(list(stmts), [Path()], done)
    for p in live:
        p.end = "fall"
        done.append(p)
    return done


class _Scenario(ast.NodeTransformer):
    def __init__(self, mapping):
        self.mapping = dict(mapping)

    def visit(self, node):
        if isinstance(node, ast.expr):
            k = norm(node)
            if k in self.mapping:
                return ast.copy_location(ast.Constant(value=self.mapping[k]), node)
        return self.generic_visit(node)


def _bool_select(value):
    """`(a, b)[test]` with a boolean-valued test (comparison, not, and/or, a predicate call is_*()/bool()) selects like `b if test else a`: read it as that conditional expression"""
    if isinstance(value, ast.Subscript) and isinstance(value.value, (ast.Tuple, ast.List)) and len(value.value.elts) == 2:
        t = value.slice
        boolean = isinstance(t, (ast.Compare, ast.BoolOp)) or (isinstance(t, ast.UnaryOp) and isinstance(t.op, ast.Not)) or (
            isinstance(t, ast.Call) and ((isinstance(t.func, ast.Attribute) and t.func.attr.startswith("is_")) or (isinstance(t.func, ast.Name) and t.func.id == "bool")))
        if boolean:
            return ast.copy_location(ast.IfExp(test=t, body=value.value.elts[1], orelse=value.value.elts[0]), value)
    return value


def eval_atom(src, mapping, default=AnalysisError):
    """Evaluate an atomic condition under a scenario.  `mapping` is a list of (sub-expression source, python value); every sub-expression
    whose normalised source equals a key is replaced (outermost first) by the literal and the result is constant-folded.  Raises AnalysisError
    when the atom cannot be decided (or returns `default` when one is given)."""
    from .astutil import const_value

    try:
        e = ast.parse(src, mode="eval").body
    except SyntaxError:
        if default is not AnalysisError:
            return default
        raise AnalysisError("decision table: atom not parseable: %s" % src)
    e = _Scenario([(norm(ast.parse(k, mode="eval").body), v) for k, v in mapping]).visit(e)
    ok, v = const_value(e)
    if not ok:
        if default is not AnalysisError:
            return default
        raise AnalysisError("decision table: atom not decidable in the scenario domain: %s" % src)
    return bool(v)


def compatible(paths, mapping):
    """paths not contradicted by the scenario (atoms the scenario cannot decide are left open)"""
    return [p for p in paths if all(eval_atom(s, mapping, None) in (t, None) for s, t, _ in p.conds)]


def feasible(paths, mapping):
    return [p for p in paths if all(eval_atom(s, mapping) == t for s, t, _ in p.conds)]


def inline_call(callee_node, call_node, caller_env=None, skip_self=True, arg_srcs=None):
    """Decision table of a callee specialised to one call site (inlining bound 1).  Parameters are replaced by the argument expressions of `call_node` (positional,
    keyword, defaults); conditions that fold to a constant under that substitution select / discard paths.  Returns a list of
    (residual_conds [(src, truth)], calls [(callee src, [arg src], {kw: src})], end, value) for the paths that remain feasible."""
    from .astutil import const_value

    a = callee_node.args
    params = [x.arg for x in a.args]
    if skip_self and params and params[0] in ("self", "cls"):
        params = params[1:]
        defaults_for = [x.arg for x in a.args][1:]
    else:
        defaults_for = [x.arg for x in a.args]
    mapping = {}
    for name, d in zip(defaults_for[len(defaults_for) - len(a.defaults):], a.defaults):
        mapping[name] = norm(d)
    if arg_srcs is not None:
        # positional arguments as they stood at the time of the call (Path.calls records them substituted)
        for name, src in zip(params, arg_srcs):
            mapping[name] = src
    else:
        for name, arg in zip(params, call_node.args):
            mapping[name] = subst(arg, caller_env or {})
    for kw in call_node.keywords:
        if kw.arg is None:
            raise AnalysisError("decision table: **kwargs at an inlined call site")
        mapping[kw.arg] = subst(kw.value, caller_env or {})
    missing = [p for p in params if p not in mapping]
    if missing:
        raise AnalysisError("decision table: arguments %s of the inlined call not found" % missing)

    def sub(src):
        return subst(ast.parse(src, mode="eval").body, mapping)

    out = []
    for p in extract(callee_node, opaque_loops=True):
        ok = True
        residual = []
        for s, t, _ in p.conds:
            if s.startswith("<"):
                residual.append((s, t))
                continue
            s2 = sub(s)
            okf, v = const_value(ast.parse(s2, mode="eval").body)
            if okf:
                if bool(v) != t:
                    ok = False
                    break
            else:
                residual.append((s2, t))
        if not ok:
            continue
        calls = []
        for fn, args, node in p.calls:
            kws = {}
            if isinstance(node, ast.Call):
                for kw in node.keywords:
                    if kw.arg is not None:
                        kws[kw.arg] = sub(subst(kw.value, p.env))
            calls.append((fn, [sub(x) for x in args], kws))
        out.append((residual, calls, p.end, sub(p.value) if p.value is not None and p.end in ("return", "raise") and not p.value.startswith("<") else p.value))
    return out
