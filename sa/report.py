"""Obligations, findings, known-findings matching, evidence files and exit codes."""
import json
import os
import time

VERIF = os.path.dirname(os.path.dirname(os.path.abspath(__file__)))
KNOWN_FINDINGS = os.path.join(VERIF, "known_findings.json")
EVIDENCE_DIR = os.path.join(VERIF, "evidence")


class Obligation(object):
    """One decided rule instance.

    rule      -- short rule id (e.g. 'S1')
    module    -- module name the construct lives in
    function  -- qualified function/class name (or '<module>')
    construct -- normalised source of the statement/expression decided (key component)
    line      -- line number (reported, never part of the key)
    ok        -- True when discharged
    reason    -- why it holds / what fails
    path      -- optional: for path rules, entry point and offending exit
    """

    __slots__ = ("rule", "module", "function", "construct", "line", "ok", "reason", "path", "relpath", "advisory")

    def __init__(self, rule, module, function, construct, line, ok, reason, path=None, relpath=None, advisory=False):
        self.rule = rule
        self.module = module
        self.function = function
        self.construct = construct
        self.line = line
        self.ok = ok
        self.reason = reason
        self.path = path
        self.relpath = relpath
        self.advisory = advisory

    def key(self, prop):
        return (prop, self.rule, self.module, self.function, self.construct)

    def as_dict(self, prop):
        d = {
            "property": prop,
            "rule": self.rule,
            "module": self.module,
            "function": self.function,
            "construct": self.construct,
            "line": self.line,
            "file": self.relpath,
            "verdict": "ok" if self.ok else ("advisory" if self.advisory else "fail"),
            "reason": self.reason,
        }
        if self.path:
            d["path"] = self.path
        return d


class Collector(object):
    """Collects obligations for one property run."""

    def __init__(self, prop, repo, thorough=False):
        self.prop = prop
        self.repo = repo
        self.thorough = thorough
        self.obligations = []
        self.counts = {}
        self.notes = []
        self.rules = {}  # rule id -> description

    def rule(self, rid, text):
        self.rules[rid] = text

    def _mk(self, rule, modref, node, ok, reason, function=None, construct=None, path=None, advisory=False):
        from .index import norm, Module

        if isinstance(modref, Module):
            module = modref
        else:
            module = self.repo.module(modref)
        if construct is None:
            construct = norm(node) if node is not None else ""
        if function is None:
            function = module.qualname_of(node) if node is not None else "<module>"
        line = getattr(node, "lineno", 0) if node is not None else 0
        ob = Obligation(rule, module.name, function, construct, line, ok, reason, path, module.relpath, advisory)
        self.obligations.append(ob)
        return ob

    def ok(self, rule, modref, node, reason, **kw):
        return self._mk(rule, modref, node, True, reason, **kw)

    def fail(self, rule, modref, node, reason, **kw):
        return self._mk(rule, modref, node, False, reason, **kw)

    def decide(self, rule, modref, node, cond, reason_ok, reason_fail, **kw):
        if cond:
            return self.ok(rule, modref, node, reason_ok, **kw)
        return self.fail(rule, modref, node, reason_fail, **kw)

    def advisory(self, rule, modref, node, reason, **kw):
        return self._mk(rule, modref, node, False, reason, advisory=True, **kw)

    def count(self, name, n=1):
        self.counts[name] = self.counts.get(name, 0) + n

    def note(self, text):
        self.notes.append(text)

    def floor(self, name, measured, minimum):
        """Instance floor: a rule that matches fewer instances than confirmed by hand is broken."""
        from .index import AnalysisError

        self.counts[name] = measured
        self.counts[name + ".floor"] = minimum
        if measured < minimum:
            raise AnalysisError(
                "instance count for %s fell to %d (floor %d confirmed by hand)" % (name, measured, minimum)
            )


def load_known():
    if not os.path.exists(KNOWN_FINDINGS):
        return {"known": [], "fixed": []}
    with open(KNOWN_FINDINGS) as f:
        return json.load(f)


def known_key(entry):
    return (entry["property"], entry["rule"], entry["module"], entry["function"], entry["construct"])


def finish(col, t0, tier, explanation, assumptions, seed=0):
    """Print verdict lines, write evidence, return exit code."""
    prop = col.prop
    known = load_known()
    kmap = {known_key(e): e for e in known.get("known", [])}
    fails = [o for o in col.obligations if not o.ok and not o.advisory]
    advis = [o for o in col.obligations if o.advisory]
    violations = []
    known_hits = []
    seen = set()
    for o in fails:
        k = o.key(prop)
        if k in seen:
            continue
        seen.add(k)
        if k in kmap:
            known_hits.append((o, kmap[k]))
        else:
            violations.append(o)
    vdir = os.path.join(EVIDENCE_DIR, "%s.violations" % prop)
    os.makedirs(EVIDENCE_DIR, exist_ok=True)
    if os.path.isdir(vdir):
        for fn in os.listdir(vdir):
            try:
                os.remove(os.path.join(vdir, fn))
            except OSError:
                pass
    for o, e in known_hits:
        print(
            "KNOWN-FINDING: property=%s %s %s:%s %s — %s"
            % (prop, o.rule, o.relpath, o.function, _short(o.construct), e.get("what", o.reason))
        )
    for o in advis:
        print("ADVISORY: property=%s %s %s:%d %s — %s" % (prop, o.rule, o.relpath, o.line, o.function, o.reason))
    for i, o in enumerate(violations):
        os.makedirs(vdir, exist_ok=True)
        path = os.path.join(vdir, "%d.json" % i)
        with open(path, "w") as f:
            json.dump(o.as_dict(prop), f, indent=1)
        print(
            "%s:%d %s — rule %s — %s — %s%s"
            % (o.relpath, o.line, o.function, o.rule, _short(o.construct), o.reason, (" — path: %s" % o.path) if o.path else "")
        )
        print("VIOLATION property=%s replay=%s" % (prop, path))
    nontrivial = set()
    for o in col.obligations:
        nontrivial.add(o.key(prop))
    samples = []
    per_rule = {}
    for o in col.obligations:
        per_rule.setdefault(o.rule, []).append(o)
    for rid in sorted(per_rule):
        for o in per_rule[rid][:3]:
            samples.append(
                {
                    "rule": rid,
                    "where": "%s:%d" % (o.relpath, o.line),
                    "function": o.function,
                    "construct": _short(o.construct, 160),
                    "verdict": "ok" if o.ok else ("advisory" if o.advisory else "fail"),
                    "reason": o.reason,
                }
            )
    n_obl = len([o for o in col.obligations if not o.advisory])
    n_dis = len([o for o in col.obligations if o.ok])
    ev = {
        "property_id": prop,
        "tier": tier,
        "seed": seed,
        "level": "other",
        "coverage": {
            "explanation": explanation,
            "rules": col.rules,
            "evaluations": len(col.obligations),
            "distinct_nontrivial": len(nontrivial),
            "rule": "one case = one rule instance decided on a construct of /repo's current source "
            "(call site, function, branch, table row, class); distinct = distinct "
            "(rule, module, function, normalised construct) keys",
            "samples": samples,
            "obligations": n_obl,
            "discharged": n_dis,
            "units_analysed": len(col.repo.modules),
            "instance_counts": col.counts,
            "per_rule": {r: {"instances": len(v), "failed": len([o for o in v if not o.ok and not o.advisory])} for r, v in per_rule.items()},
            "known_findings_printed": [o.as_dict(prop) for o, _ in known_hits],
            "advisories": [o.as_dict(prop) for o in advis],
            "notes": col.notes,
            "root": col.repo.root,
            "exhaustive": True,
        },
        "assumptions": assumptions,
        "wall_s": round(time.time() - t0, 3),
        "violations": len(violations),
    }
    with open(os.path.join(EVIDENCE_DIR, "%s.json" % prop), "w") as f:
        json.dump(ev, f, indent=1, sort_keys=True)
    print(
        "%s %s: %d rule instances, %d obligations, %d discharged, %d known findings, %d advisories, %d violations (%.2fs)"
        % (prop, tier, len(col.obligations), n_obl, n_dis, len(known_hits), len(advis), len(violations), time.time() - t0)
    )
    return 1 if violations else 0


def _short(s, n=110):
    s = " ".join(str(s).split())
    return s if len(s) <= n else s[: n - 3] + "..."
