"""Frozen tables of CPython semantics (trusted base). Sources: Python Language Reference 6.7 "Binary arithmetic
operations", 6.8 "Shifting operations", 6.9 "Binary bitwise operations"; library reference for math, int, float, round."""

# exception classes an implementation tag can raise when applied to ProbLog constants (int, float, str)
EXC_OF_TAG = {
    "binop:Add": {"TypeError"},  # "abc" + 1
    "binop:Sub": {"TypeError"},
    "binop:Mult": {"TypeError"},
    "binop:Div": {"ZeroDivisionError", "TypeError", "OverflowError"},  # 1/0 ; "a"/1 ; 10**400 / 3
    "binop:FloorDiv": {"ZeroDivisionError", "TypeError"},
    "binop:Mod": {"ZeroDivisionError", "TypeError"},
    "binop:Pow": {"OverflowError", "ZeroDivisionError", "TypeError"},  # 2.0 ** 10000 ; 0 ** -1
    "binop:BitAnd": {"TypeError"},  # 1.5 & 2
    "binop:BitOr": {"TypeError"},
    "binop:BitXor": {"TypeError"},
    "binop:LShift": {"TypeError", "ValueError", "OverflowError"},  # 1 << 1.5 ; 1 << -1 ; 1 << 10**30
    "binop:RShift": {"TypeError", "ValueError"},
    "unary:USub": {"TypeError"},
    "unary:UAdd": {"TypeError"},
    "unary:Invert": {"TypeError"},  # ~1.5
    "unary:Not": set(),
    "compare": {"TypeError"},  # "a" > 0
    "const": set(),
    "builtin:int": {"ValueError", "OverflowError"},  # int(nan) ; int(inf)
    "builtin:float": {"ValueError", "OverflowError"},  # float("abc") ; float(10**400)
    "builtin:abs": {"TypeError"},
    "builtin:min": {"TypeError"},
    "builtin:max": {"TypeError"},
    "builtin:round": {"TypeError", "ValueError", "OverflowError"},
}
MATH_DEFAULT = {"ValueError", "OverflowError", "TypeError"}  # math domain error ; math range error ; must be real number


def exc_of_tag(tag):
    if tag.startswith("math:"):
        return set(MATH_DEFAULT)
    return EXC_OF_TAG.get(tag)
